/* /verif/stubs/zone_stubs.h - trusted stand-ins for the library pieces the zone kernel touches (R14).
 * Only declarations with contracts: the library implementation is an assumed contract on a dependency. */
#ifndef VERIF_ZONE_STUBS_H
#define VERIF_ZONE_STUBS_H
/* std::atomic<size_t> hints: a relaxed load may return ANY value (C14: answers must not depend on it) */
size_t vatomic_load_hint(void);
void vatomic_store_hint(size_t v);
#endif
