/* /verif/stubs/vstr.h - executable model of the std::string subset used by the extracted functions.
 * TRUSTED (listed in every evidence file that uses it): it stands for libstdc++'s std::string.
 * Value semantics by struct copy.  Capacity is fixed: strings longer than VSTR_CAP-1 bytes are outside
 * the model (every harness states the bound it uses). */
#ifndef VERIF_VSTR_H
#define VERIF_VSTR_H
#ifndef VSTR_CAP
#define VSTR_CAP 32
#endif
typedef struct vstr { char data[VSTR_CAP]; size_t size; } vstr;   /* data[size] == 0 always (c_str()) */
#define VSTR_WF(s) ((s).size < VSTR_CAP && (s).data[(s).size] == 0)

static inline vstr vstr_from_cstr(const char* p) {
  vstr r; size_t i = 0;
  for (; i < VSTR_CAP - 1 && p[i] != 0; ++i) r.data[i] = p[i];
  __CPROVER_assert(p[i] == 0, "vstr model: string fits the model capacity");
  r.size = i; r.data[i] = 0;
  return r;
}
static inline bool vstr_eq_cstr(const vstr* s, const char* p) {
  size_t i = 0;
  for (; i < s->size; ++i) { if (p[i] == 0 || p[i] != s->data[i]) return 0; }
  return p[i] == 0;
}
static inline void vstr_assign(vstr* s, const char* p, size_t n) {
  __CPROVER_assert(n < VSTR_CAP, "vstr model: assigned string fits the model capacity");
  for (size_t i = 0; i < n; ++i) s->data[i] = p[i];
  s->size = n; s->data[n] = 0;
}
/* std::string::compare(pos, len, cstr): <0, 0, >0 like the library (lexicographic, then by length) */
static inline int vstr_compare(const vstr* s, size_t pos, size_t n, const char* p) {
  __CPROVER_assert(pos <= s->size, "std::string::compare: pos <= size() (else std::out_of_range)");
  if (n > s->size - pos) n = s->size - pos;
  size_t i = 0;
  for (; i < n; ++i) {
    if (p[i] == 0) return 1;
    if ((unsigned char)s->data[pos + i] != (unsigned char)p[i]) return (unsigned char)s->data[pos + i] < (unsigned char)p[i] ? -1 : 1;
  }
  return p[i] == 0 ? 0 : -1;
}
static inline void vstr_erase(vstr* s, size_t pos, size_t n) {
  __CPROVER_assert(pos <= s->size, "std::string::erase: pos <= size() (else std::out_of_range)");
  if (n > s->size - pos) n = s->size - pos;
  for (size_t i = pos; i + n <= s->size; ++i) s->data[i] = s->data[i + n];   /* moves the terminator too */
  s->size -= n;
}
static inline const char* valg_copy_n_char(const char* src, size_t n, char* dst) {
  for (size_t i = 0; i < n; ++i) dst[i] = src[i];
  return dst + n;
}
static inline bool valg_equal_char(const char* first, const char* last, const char* other) {
  for (; first != last; ++first, ++other) { if (*first != *other) return 0; }
  return 1;
}
#endif
