/* /verif/stubs/prelude.h - hand-written C prelude shared by every extracted unit.
 * Contains NO cctz logic: only type spellings the extractor maps library types onto.
 * Everything here is part of the trusted base and is listed in every evidence file. */
#ifndef VERIF_PRELUDE_H
#define VERIF_PRELUDE_H
typedef __int128 Z;                 /* specification integers: wide enough for any int64 formula used */
typedef int64_t time_point_s;       /* std::chrono::time_point<system_clock, seconds>: count of seconds since epoch */
typedef int64_t seconds_t;          /* std::chrono::seconds::rep */
#endif
