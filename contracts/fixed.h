/* /verif/contracts/fixed.h - contracts for src/time_zone_fixed.cc (property C15).
 * Written from the property statement: names are "Fixed/UTC<sign>hh:mm:ss", at most 24 h. */
#define RV __CPROVER_return_value
#define DIG(c) ('0' <= (c) && (c) <= '9')
#define DV(c) ((c) - '0')
#define ABSOFF(o) ((o) < 0 ? -(o) : (o))
#define OFF_H(o) (ABSOFF(o) / 3600)
#define OFF_M(o) ((ABSOFF(o) / 60) % 60)
#define OFF_S(o) (ABSOFF(o) % 60)
#define IS_UTC_OFFSET(o) ((o) == 0 || (o) < -86400 || (o) > 86400)
#define PREFIX_OK(d) ((d)[0] == 'F' && (d)[1] == 'i' && (d)[2] == 'x' && (d)[3] == 'e' && (d)[4] == 'd' && (d)[5] == '/' && \
                      (d)[6] == 'U' && (d)[7] == 'T' && (d)[8] == 'C')
#define STR_IS_UTC(s) ((s).size == 3 && (s).data[0] == 'U' && (s).data[1] == 'T' && (s).data[2] == 'C')
#define STR_IS_UTC0(s) ((s).size == 4 && (s).data[0] == 'U' && (s).data[1] == 'T' && (s).data[2] == 'C' && (s).data[3] == '0')
/* the canonical 18-byte name of offset o (0 < |o| <= 86400) */
#define NAME_IS(s, o) ((s).size == 18 && PREFIX_OK((s).data) && (s).data[9] == ((o) < 0 ? '-' : '+') && \
  (s).data[10] == '0' + OFF_H(o) / 10 && (s).data[11] == '0' + OFF_H(o) % 10 && (s).data[12] == ':' && \
  (s).data[13] == '0' + OFF_M(o) / 10 && (s).data[14] == '0' + OFF_M(o) % 10 && (s).data[15] == ':' && \
  (s).data[16] == '0' + OFF_S(o) / 10 && (s).data[17] == '0' + OFF_S(o) % 10 && (s).data[18] == 0)
/* shape of a fixed-offset name and the offset it spells */
#define NAME_SHAPE(s) ((s).size == 18 && PREFIX_OK((s).data) && ((s).data[9] == '+' || (s).data[9] == '-') && \
  DIG((s).data[10]) && DIG((s).data[11]) && (s).data[12] == ':' && DIG((s).data[13]) && DIG((s).data[14]) && \
  (s).data[15] == ':' && DIG((s).data[16]) && DIG((s).data[17]))
#define NAME_TOTAL(s) (((DV((s).data[10]) * 10 + DV((s).data[11])) * 60 + (DV((s).data[13]) * 10 + DV((s).data[14]))) * 60 + \
                       (DV((s).data[16]) * 10 + DV((s).data[17])))
#define IS_FIXED_NAME(s) (NAME_SHAPE(s) && NAME_TOTAL(s) <= 86400)
#define NAME_VALUE(s) ((s).data[9] == '-' ? -NAME_TOTAL(s) : NAME_TOTAL(s))
/* numeric abbreviation: sign, hh, then mm and ss only as far as they are non-zero */
#define ABBR_IS(s, o) ((s).data[0] == ((o) < 0 ? '-' : '+') && (s).data[1] == '0' + OFF_H(o) / 10 && (s).data[2] == '0' + OFF_H(o) % 10 && \
  (OFF_S(o) != 0 ? ((s).size == 7 && (s).data[3] == '0' + OFF_M(o) / 10 && (s).data[4] == '0' + OFF_M(o) % 10 && \
                    (s).data[5] == '0' + OFF_S(o) / 10 && (s).data[6] == '0' + OFF_S(o) % 10 && (s).data[7] == 0) \
   : OFF_M(o) != 0 ? ((s).size == 5 && (s).data[3] == '0' + OFF_M(o) / 10 && (s).data[4] == '0' + OFF_M(o) % 10 && (s).data[5] == 0) \
   : ((s).size == 3 && (s).data[3] == 0)))

char* Format02d(char* p, int v)
__CPROVER_requires(__CPROVER_is_fresh(p, 2) && 0 <= v && v <= 99)
__CPROVER_ensures(p[0] == '0' + v / 10 && p[1] == '0' + v % 10)
__CPROVER_ensures(RV == p + 2)
__CPROVER_assigns(p[0], p[1]);

int Parse02d(const char* p)
__CPROVER_requires(__CPROVER_is_fresh(p, 2))
__CPROVER_ensures((DIG(p[0]) && DIG(p[1])) ? RV == DV(p[0]) * 10 + DV(p[1]) : RV == -1)
__CPROVER_assigns();

bool FixedOffsetFromName(const vstr* name, seconds_t* offset)
__CPROVER_requires(__CPROVER_is_fresh(name, sizeof(vstr)) && VSTR_WF(*name) && __CPROVER_is_fresh(offset, sizeof(seconds_t)))
__CPROVER_ensures(RV == ((STR_IS_UTC(*name) || STR_IS_UTC0(*name) || IS_FIXED_NAME(*name)) ? 1 : 0))
__CPROVER_ensures((STR_IS_UTC(*name) || STR_IS_UTC0(*name)) ? *offset == 0 : (IS_FIXED_NAME(*name) ? *offset == NAME_VALUE(*name) : *offset == __CPROVER_old(*offset)))
__CPROVER_assigns(*offset);

vstr FixedOffsetToName(seconds_t offset)
__CPROVER_ensures(VSTR_WF(RV))
__CPROVER_ensures(IS_UTC_OFFSET(offset) ? STR_IS_UTC(RV) : NAME_IS(RV, offset))
__CPROVER_assigns();

vstr FixedOffsetToAbbr(seconds_t offset)
__CPROVER_ensures(VSTR_WF(RV))
__CPROVER_ensures(IS_UTC_OFFSET(offset) ? STR_IS_UTC(RV) : ABBR_IS(RV, offset))
__CPROVER_assigns();
