/* /verif/contracts/zone.h - contracts for the lookup kernel of src/time_zone_info.cc
 * (C01, C02, C03, C06, C10, C11, C14).  Builds on the civil-time contracts.
 *
 * Quantifier-free well-formedness.  The table invariants that TimeZoneInfo::Load establishes
 * (sorted by unix_time and by civil time, civil_sec/prev_civil_sec are the local readings of
 * unix_time, offsets within a day, type indices in range) are universally quantified over the
 * table.  A kernel function only ever needs them at a handful of indices: the one it returns
 * plus its neighbours.  So the contracts below are stated for *ghost* indices gz_i, gz_j
 * (arbitrary: the harness leaves them nondeterministic) and require the invariants only at
 * those indices.  Since the ghost indices are arbitrary, an enforced contract holds for every
 * index - which is the universally quantified statement. */
#include "/verif/contracts/civil.h"
#pragma CPROVER check push
#pragma CPROVER check disable "signed-overflow"
#pragma CPROVER check disable "conversion"

#ifndef ZMAXTR
#define ZMAXTR 2000          /* bound on the table length: only sizes the symbolic allocation */
#endif
extern size_t gz_i;          /* ghost: index of a transition (by time) */
extern size_t gz_j;          /* ghost: index of a transition (by civil time) */
extern size_t gz_k;          /* ghost: index of a transition type */
extern size_t gz_hint;       /* ghost: the value the relaxed load of a hint returns (arbitrary) */

#define EPOCHSEC ((Z)719528 * 86400)   /* second ordinal of 1970-01-01T00:00:00 */
#define P400 ((Z)146097 * 86400)       /* seconds in 400 Gregorian years */
#define NTR(z) ((z)->transitions_.size)
#define TR(z, i) ((z)->transitions_.data[i])
#define NTY(z) ((z)->transition_types_.size)
#define TY(z, k) ((z)->transition_types_.data[k])
#define DEFTY(z) ((z)->default_transition_type_)
#define ABBR(z, k) (&(z)->abbreviations_.data[TY(z, k).abbr_index])

/* memory shape of a loaded zone */
#define ZSHAPE(z) (__CPROVER_is_fresh(z, sizeof(TimeZoneInfo)) && 1 <= NTR(z) && NTR(z) <= ZMAXTR && \
  __CPROVER_is_fresh((z)->transitions_.data, NTR(z) * sizeof(Transition)) && 1 <= NTY(z) && NTY(z) <= 256 && \
  __CPROVER_is_fresh((z)->transition_types_.data, NTY(z) * sizeof(TransitionType)) && DEFTY(z) < NTY(z) && VSTR_WF((z)->abbreviations_))
/* a transition type is sane (Load: offsets within a day, abbreviation index inside the string) */
#define TYOK(z, k) ((k) < NTY(z) && -86400 < TY(z, k).utc_offset && TY(z, k).utc_offset < 86400 && TY(z, k).abbr_index <= (z)->abbreviations_.size)
/* type in force just before transition i */
#define PREVTY(z, i) ((i) == 0 ? (size_t)DEFTY(z) : (size_t)TR(z, (i) - 1).type_index)
/* WF at index i: its type and the previous type are sane; civil_sec / prev_civil_sec are the local readings of unix_time */
#define WFI(z, i) ((i) < NTR(z) && TYOK(z, TR(z, i).type_index) && TYOK(z, PREVTY(z, i)) && \
  OVALID(TR(z, i).civil_sec) && OVALID(TR(z, i).prev_civil_sec) && \
  OSEC(TR(z, i).civil_sec) == (Z)TR(z, i).unix_time + TY(z, TR(z, i).type_index).utc_offset + EPOCHSEC && \
  OSEC(TR(z, i).prev_civil_sec) == (Z)TR(z, i).unix_time - 1 + TY(z, PREVTY(z, i)).utc_offset + EPOCHSEC)
/* t lies in the half-open interval of transition i */
#define TBRACKET(z, i, t) ((i) + 1 < NTR(z) && TR(z, i).unix_time <= (t) && (t) < TR(z, (i) + 1).unix_time)
/* r is the local reading of instant t in transition type k */
#define LOCAL_IS(z, r, t, k) ((r).offset == TY(z, k).utc_offset && (r).is_dst == TY(z, k).is_dst && (r).abbr == ABBR(z, k) && \
  OVALID((r).cs) && OSEC((r).cs) == (Z)(t) + TY(z, k).utc_offset + EPOCHSEC)

/* the epoch, and why every int64 instant (shifted by less than a day) has a representable civil second */
#define lemma_epoch_REQ() (1)
#define lemma_epoch_ENS() (VALIDD(1970, 1, 1) && DAYORD(1970, 1, 1) == 719528)
#define lemma_secrepr_REQ(u) (-((Z)1 << 64) < (Z)(u) && (Z)(u) < ((Z)1 << 64))
#define lemma_secrepr_ENS(u) (REPR_second(u))

/* ---- trusted library contracts (R14) ---- */
/* std::upper_bound on a table sorted by unix_time (Load rejects unsorted tables) returns the end of the
 * unique bracket; stated for the ghost index: if gz_i brackets the target, that is the answer */
const Transition* valg_upper_bound_Transition_ByUnixTime(const Transition* first, const Transition* last, const Transition* value)
__CPROVER_requires(1)
__CPROVER_ensures(__CPROVER_same_object(RV, first) && __CPROVER_POINTER_OFFSET(first) <= __CPROVER_POINTER_OFFSET(RV) && __CPROVER_POINTER_OFFSET(RV) <= __CPROVER_POINTER_OFFSET(last))
__CPROVER_ensures((first[gz_i].unix_time <= value->unix_time && value->unix_time < first[gz_i + 1].unix_time) ? RV == first + gz_i + 1 : 1)
__CPROVER_assigns();

size_t vatomic_load_hint(void)
__CPROVER_requires(1)
__CPROVER_ensures(RV == gz_hint)
__CPROVER_assigns();
void vatomic_store_hint(size_t v)
__CPROVER_requires(1)
__CPROVER_ensures(1)
__CPROVER_assigns();

/* ---- kernel ---- */
/* index of an element pointer inside the tables */
#define TRIDX(z, p) ((size_t)((p) - (z)->transitions_.data))
#define TYIDX(z, p) ((size_t)((p) - (z)->transition_types_.data))
#define IN_TR(z, p) (__CPROVER_same_object(p, (z)->transitions_.data) && __CPROVER_POINTER_OFFSET(p) % sizeof(Transition) == 0 && TRIDX(z, p) < NTR(z))
#define IN_TY(z, p) (__CPROVER_same_object(p, (z)->transition_types_.data) && __CPROVER_POINTER_OFFSET(p) % sizeof(TransitionType) == 0 && TYIDX(z, p) < NTY(z))

absolute_lookup LocalTime_TransitionType(const TimeZoneInfo* self, int_fast64_t unix_time, const TransitionType* tt)
__CPROVER_requires(ZSHAPE(self) && IN_TY(self, tt) && TYOK(self, TYIDX(self, tt)))
__CPROVER_ensures(LOCAL_IS(self, RV, unix_time, TYIDX(self, tt)))
__CPROVER_assigns();

absolute_lookup LocalTime_Transition(const TimeZoneInfo* self, int_fast64_t unix_time, const Transition* tr)
__CPROVER_requires(ZSHAPE(self) && IN_TR(self, tr) && WFI(self, TRIDX(self, tr)))
__CPROVER_requires(FITS64((Z)unix_time - tr->unix_time))
__CPROVER_ensures(LOCAL_IS(self, RV, unix_time, tr->type_index))
__CPROVER_assigns();

/* C01 (kernel): the reading reported for instant tp is that of the latest transition at or before tp
 * (the default type before the first one).  gz_i is an arbitrary ghost index: whenever it brackets tp, the
 * answer is the reading in transition gz_i's type - for every index, hence for THE bracketing index.
 * gz_hint is whatever the relaxed load of the hint returns: the postcondition does not mention it (C14). */
#define BT_MIDDLE(z, t) (TR(z, 0).unix_time <= (t) && (t) < TR(z, NTR(z) - 1).unix_time)
absolute_lookup BreakTime(const TimeZoneInfo* self, time_point_s tp)
__CPROVER_requires(ZSHAPE(self) && !self->extended_)
__CPROVER_requires(WFI(self, 0) && WFI(self, NTR(self) - 1) && TYOK(self, DEFTY(self)))
__CPROVER_requires(TR(self, 0).unix_time < 0 && TR(self, NTR(self) - 1).unix_time >= 0)
__CPROVER_requires(BT_MIDDLE(self, tp) ? (TBRACKET(self, gz_i, tp) && WFI(self, gz_i) && FITS64((Z)tp - TR(self, gz_i).unix_time)) : 1)
/* uniqueness of the bracket (instance of sortedness): a hint that brackets tp is the same bracket */
__CPROVER_requires((0 < gz_hint && gz_hint < NTR(self) && TR(self, gz_hint - 1).unix_time <= tp && tp < TR(self, gz_hint).unix_time) ? gz_hint - 1 == gz_i : 1)
__CPROVER_ensures(tp < TR(self, 0).unix_time ? LOCAL_IS(self, RV, tp, DEFTY(self)) :
                  (tp >= TR(self, NTR(self) - 1).unix_time ? LOCAL_IS(self, RV, tp, TR(self, NTR(self) - 1).type_index) :
                   LOCAL_IS(self, RV, tp, TR(self, gz_i).type_index)))
__CPROVER_assigns();

#pragma CPROVER check pop
