/* /verif/contracts/zone.h - contracts for the lookup kernel of src/time_zone_info.cc
 * (C01, C02, C03, C06, C10, C11, C14).  Builds on the civil-time contracts.
 *
 * Quantifier-free well-formedness.  The table invariants that TimeZoneInfo::Load establishes
 * (sorted by unix_time and by civil time, civil_sec/prev_civil_sec are the local readings of
 * unix_time, offsets within a day, type indices in range) are universally quantified over the
 * table.  A kernel function only ever needs them at a handful of indices: the one it returns
 * plus its neighbours.  So the contracts below are stated for *ghost* indices gz_i, gz_j
 * (arbitrary: the harness leaves them nondeterministic) and require the invariants only at
 * those indices.  Since the ghost indices are arbitrary, an enforced contract holds for every
 * index - which is the universally quantified statement. */
#include "/verif/contracts/civil.h"
#pragma CPROVER check push
#pragma CPROVER check disable "signed-overflow"
#pragma CPROVER check disable "conversion"
/* specification clauses only: every table access in a clause is guarded by its range condition in the clause itself;
 * the memory-safety checks of the CODE are unaffected (they are generated from the function bodies) */
#pragma CPROVER check disable "pointer"
#pragma CPROVER check disable "pointer-primitive"
#pragma CPROVER check disable "pointer-overflow"
#pragma CPROVER check disable "bounds"

#ifndef ZMAXTR
#define ZMAXTR 2000          /* bound on the table length: only sizes the symbolic allocation */
#endif
extern size_t gz_i;          /* ghost: index of a transition (by time) */
extern size_t gz_j;          /* ghost: index of a transition (by civil time) */
extern size_t gz_k;          /* ghost: index of a transition type */
extern size_t gz_hint;       /* ghost: the value the relaxed load of a hint returns (arbitrary) */

#define EPOCHSEC ((Z)719528 * 86400)   /* second ordinal of 1970-01-01T00:00:00 */
#define P400 ((Z)146097 * 86400)       /* seconds in 400 Gregorian years */
#define NTR(z) ((z)->transitions_.size)
#define TR(z, i) ((z)->transitions_.data[i])
#define NTY(z) ((z)->transition_types_.size)
#define TY(z, k) ((z)->transition_types_.data[k])
#define DEFTY(z) ((z)->default_transition_type_)
#define ABBR(z, k) (&(z)->abbreviations_.data[TY(z, k).abbr_index])

/* memory shape of a loaded zone */
#define ZSHAPE(z) (__CPROVER_is_fresh(z, sizeof(TimeZoneInfo)) && 1 <= NTR(z) && NTR(z) <= ZMAXTR && \
  __CPROVER_is_fresh((z)->transitions_.data, NTR(z) * sizeof(Transition)) && 1 <= NTY(z) && NTY(z) <= 256 && \
  __CPROVER_is_fresh((z)->transition_types_.data, NTY(z) * sizeof(TransitionType)) && DEFTY(z) < NTY(z) && VSTR_WF((z)->abbreviations_))
/* the part of the shape that a function reading only the type table needs (tr then points into the other table) */
#define ZSHAPE_TY(z) (__CPROVER_is_fresh(z, sizeof(TimeZoneInfo)) && 1 <= NTY(z) && NTY(z) <= 256 && \
  __CPROVER_is_fresh((z)->transition_types_.data, NTY(z) * sizeof(TransitionType)) && VSTR_WF((z)->abbreviations_))
#define ZSHAPE_TY256(z) (__CPROVER_is_fresh(z, sizeof(TimeZoneInfo)) && 1 <= NTY(z) && NTY(z) <= 256 && \
  __CPROVER_is_fresh((z)->transition_types_.data, 256 * sizeof(TransitionType)))
#define ZSHAPE256(z) (__CPROVER_is_fresh(z, sizeof(TimeZoneInfo)) && 1 <= NTR(z) && NTR(z) <= ZMAXTR && \
  __CPROVER_is_fresh((z)->transitions_.data, NTR(z) * sizeof(Transition)) && 1 <= NTY(z) && NTY(z) <= 256 && \
  __CPROVER_is_fresh((z)->transition_types_.data, 256 * sizeof(TransitionType)) && DEFTY(z) < NTY(z))
/* a transition type is sane (Load: offsets within a day, abbreviation index inside the string) */
#define TYOK(z, k) ((k) < NTY(z) && -86400 < TY(z, k).utc_offset && TY(z, k).utc_offset < 86400 && TY(z, k).abbr_index <= (z)->abbreviations_.size)
/* type in force just before transition i */
#define PREVTY(z, i) ((i) == 0 ? (size_t)DEFTY(z) : (size_t)TR(z, (i) - 1).type_index)
/* WF at index i: its type and the previous type are sane; civil_sec / prev_civil_sec are the local readings of unix_time */
#define WFI(z, i) ((i) < NTR(z) && TR(z, i).unix_time > INT64_MIN && TYOK(z, TR(z, i).type_index) && TYOK(z, PREVTY(z, i)) && \
  OVALID(TR(z, i).civil_sec) && OVALID(TR(z, i).prev_civil_sec) && \
  OSEC(TR(z, i).civil_sec) == (Z)TR(z, i).unix_time + TY(z, TR(z, i).type_index).utc_offset + EPOCHSEC && \
  OSEC(TR(z, i).prev_civil_sec) == (Z)TR(z, i).unix_time - 1 + TY(z, PREVTY(z, i)).utc_offset + EPOCHSEC)
/* t lies in the half-open interval of transition i */
#define TBRACKET(z, i, t) ((i) + 1 < NTR(z) && TR(z, i).unix_time <= (t) && (t) < TR(z, (i) + 1).unix_time)
/* r is the local reading of instant t in transition type k */
#define LOCAL_IS_A(z, r, t, k) ((r).offset == TY(z, k).utc_offset && (r).is_dst == TY(z, k).is_dst && (r).abbr == ABBR(z, k))
#define LOCAL_IS_B(z, r, t, k) (OVALID((r).cs))
#define LOCAL_IS_C(z, r, t, k) (OSEC((r).cs) == (Z)(t) + TY(z, k).utc_offset + EPOCHSEC)
#define LOCAL_IS(z, r, t, k) (LOCAL_IS_A(z, r, t, k) && LOCAL_IS_B(z, r, t, k) && LOCAL_IS_C(z, r, t, k))

/* the epoch, and why every int64 instant (shifted by less than a day) has a representable civil second */
#define lemma_epoch_REQ() (1)
#define EPOCH_CS ((fields){1970, 1, 1, 0, 0, 0})
#define lemma_epoch_ENS() (VALIDD(1970, 1, 1) && DAYORD(1970, 1, 1) == 719528 && OSEC(EPOCH_CS) == EPOCHSEC)
#define lemma_secrepr_REQ(u) (-((Z)1 << 64) < (Z)(u) && (Z)(u) < ((Z)1 << 64))
#define lemma_secrepr_ENS(u) (REPR_second(u))

/* ---- trusted library contracts (R14) ---- */
/* std::upper_bound on a table sorted by unix_time (Load rejects unsorted tables) returns the end of the
 * unique bracket; stated for the ghost index: if gz_i brackets the target, that is the answer */
/* written as a body returning first + k (k arbitrary, constrained by assumptions) rather than as a contract: a contract's return
 * value is an unstructured pointer, and CBMC then reads *--tr byte by byte with a division per byte */
size_t nondet_size_t(void);
static inline const Transition* valg_upper_bound_Transition_ByUnixTime(const Transition* first, const Transition* last, const Transition* value)
{
  const size_t n = (size_t)(last - first);
  if (gz_i + 1 < n && first[gz_i].unix_time <= value->unix_time && value->unix_time < first[gz_i + 1].unix_time)
    return first + (gz_i + 1);      /* the end of the (unique, by sortedness) bracket */
  if (n > 0 && value->unix_time < first[0].unix_time) return first;           /* every row is later */
  if (n > 0 && value->unix_time >= first[n - 1].unix_time) return last;       /* no row is later */
  const size_t k = nondet_size_t();
  __CPROVER_assume(k <= n);
  return first + k;
}
/* std::lower_bound: the first row not earlier than the key */
static inline const Transition* valg_lower_bound_Transition_ByUnixTime(const Transition* first, const Transition* last, const Transition* value)
{
  const size_t n = (size_t)(last - first);
  if (gz_i + 1 < n && first[gz_i].unix_time < value->unix_time && value->unix_time <= first[gz_i + 1].unix_time)
    return first + (gz_i + 1);
  if (n > 0 && value->unix_time <= first[0].unix_time) return first;
  if (n > 0 && value->unix_time > first[n - 1].unix_time) return last;
  const size_t k = nondet_size_t();
  __CPROVER_assume(k <= n);
  return first + k;
}

size_t vatomic_load_hint(void)
__CPROVER_requires(1)
__CPROVER_ensures(RV == gz_hint)
__CPROVER_assigns();
void vatomic_store_hint(size_t v)
__CPROVER_requires(1)
__CPROVER_ensures(1)
__CPROVER_assigns();

/* The 400-year shift (zones with a footer) is outside the BreakTime / MakeTime goals: their contracts exclude the shifted branches, and YearShift -
 * called only there - has the precondition "gz_extended" (a ghost flag that is false in every goal), so that reaching it is itself a failed obligation.
 * YearShift's body is NOT verified and its postcondition is empty (nothing is ever concluded from it). */
extern bool gz_extended;     /* ghost: true only in the (excluded) extended_ branches */
fields YearShift(fields cs, year_t shift)
__CPROVER_requires(gz_extended)
__CPROVER_ensures(1)
__CPROVER_assigns();

/* "changes that alter nothing": two types are equivalent when they are the same type or agree in offset, DST flag and abbreviation
 * (abbreviations are identified by their index into the zone's abbreviation string) */
#define EQUIV_TY(z, a, b) ((a) == (b) || (TY(z, a).utc_offset == TY(z, b).utc_offset && TY(z, a).is_dst == TY(z, b).is_dst && TY(z, a).abbr_index == TY(z, b).abbr_index))
bool EquivTransitions(const TimeZoneInfo* self, uint_fast8_t tt1_index, uint_fast8_t tt2_index)
/* type indices are bytes; Load validates every row's index against the type count.  That table-wide fact is modelled by giving the symbolic type
 * table 256 addressable entries (ZSHAPE_TY256): an index is then always inside the allocation, and nothing is concluded from entries >= NTY. */
__CPROVER_requires(ZSHAPE_TY256(self))
__CPROVER_ensures(RV == (EQUIV_TY(self, tt1_index, tt2_index) ? 1 : 0))
__CPROVER_assigns();

/* ---- kernel ---- */
/* value forms of the predicates (const Transition& / const TransitionType& are passed by value) */
#define TYOK_V(z, tt) (-86400 < (tt).utc_offset && (tt).utc_offset < 86400 && (tt).abbr_index <= (z)->abbreviations_.size)
#define LOCAL_IS_V(z, r, t, tt) ((r).offset == (tt).utc_offset && (r).is_dst == (tt).is_dst && (r).abbr == &(z)->abbreviations_.data[(tt).abbr_index] && \
  OVALID((r).cs) && OSEC((r).cs) == (Z)(t) + (tt).utc_offset + EPOCHSEC)

absolute_lookup LocalTime_TransitionType(const TimeZoneInfo* self, int_fast64_t unix_time, TransitionType tt)
__CPROVER_requires(__CPROVER_is_fresh(self, sizeof(TimeZoneInfo)) && TYOK_V(self, tt))
__CPROVER_ensures(LOCAL_IS_V(self, RV, unix_time, tt))
__CPROVER_assigns();

/* tr is an entry whose type is sane and whose civil_sec is the local reading of its unix_time */
#define TRWF_V(z, tr) ((tr).type_index < NTY(z) && TYOK(z, (tr).type_index) && OVALID((tr).civil_sec) && \
  OSEC((tr).civil_sec) == (Z)(tr).unix_time + TY(z, (tr).type_index).utc_offset + EPOCHSEC)
absolute_lookup LocalTime_Transition(const TimeZoneInfo* self, int_fast64_t unix_time, Transition tr)
__CPROVER_requires(ZSHAPE_TY(self))
__CPROVER_requires(tr.type_index < NTY(self) && TYOK(self, tr.type_index))
__CPROVER_requires(OVALID(tr.civil_sec))
__CPROVER_requires(OSEC(tr.civil_sec) == (Z)tr.unix_time + TY(self, tr.type_index).utc_offset + EPOCHSEC)
__CPROVER_requires(FITS64((Z)unix_time - tr.unix_time))
__CPROVER_ensures(LOCAL_IS(self, RV, unix_time, tr.type_index))
__CPROVER_assigns();

/* C01 (kernel): the reading reported for instant tp is that of the latest transition at or before tp
 * (the default type before the first one).  gz_i is an arbitrary ghost index: whenever it brackets tp, the
 * answer is the reading in transition gz_i's type - for every index, hence for THE bracketing index.
 * gz_hint is whatever the relaxed load of the hint returns: the postcondition does not mention it (C14). */
#define BT_MIDDLE(z, t) (TR(z, 0).unix_time <= (t) && (t) < TR(z, NTR(z) - 1).unix_time)
absolute_lookup BreakTime(const TimeZoneInfo* self, time_point_s tp)
__CPROVER_requires(ZSHAPE(self) && !self->extended_ && !gz_extended)
__CPROVER_requires(WFI(self, 0) && WFI(self, NTR(self) - 1) && TYOK(self, DEFTY(self)))
__CPROVER_requires(TR(self, 0).unix_time < 0 && TR(self, NTR(self) - 1).unix_time >= 0)
__CPROVER_requires(BT_MIDDLE(self, tp) ? (TBRACKET(self, gz_i, tp) && WFI(self, gz_i) && FITS64((Z)tp - TR(self, gz_i).unix_time)) : 1)
/* uniqueness of the bracket (instance of sortedness): a hint that brackets tp is the same bracket */
__CPROVER_requires((0 < gz_hint && gz_hint < NTR(self) && TR(self, gz_hint - 1).unix_time <= tp && tp < TR(self, gz_hint).unix_time) ? gz_hint - 1 == gz_i : 1)
__CPROVER_ensures(tp < TR(self, 0).unix_time ? LOCAL_IS_A(self, RV, tp, DEFTY(self)) : 1)
__CPROVER_ensures(tp >= TR(self, NTR(self) - 1).unix_time ? LOCAL_IS_A(self, RV, tp, TR(self, NTR(self) - 1).type_index) : 1)
__CPROVER_ensures(BT_MIDDLE(self, tp) ? LOCAL_IS_A(self, RV, tp, TR(self, gz_i).type_index) : 1)
__CPROVER_ensures(tp < TR(self, 0).unix_time ? LOCAL_IS_B(self, RV, tp, DEFTY(self)) : 1)
__CPROVER_ensures(tp >= TR(self, NTR(self) - 1).unix_time ? LOCAL_IS_B(self, RV, tp, TR(self, NTR(self) - 1).type_index) : 1)
__CPROVER_ensures(BT_MIDDLE(self, tp) ? LOCAL_IS_B(self, RV, tp, TR(self, gz_i).type_index) : 1)
__CPROVER_ensures(tp < TR(self, 0).unix_time ? LOCAL_IS_C(self, RV, tp, DEFTY(self)) : 1)
__CPROVER_ensures(tp >= TR(self, NTR(self) - 1).unix_time ? LOCAL_IS_C(self, RV, tp, TR(self, NTR(self) - 1).type_index) : 1)
__CPROVER_ensures(BT_MIDDLE(self, tp) ? LOCAL_IS_C(self, RV, tp, TR(self, gz_i).type_index) : 1)
__CPROVER_assigns();


/* ---- C02 (kernel): civil second -> instant(s) -------------------------------------------------------------
 * order of civil seconds == order of their second ordinals (from lemma_dayord_lex) */
#define lemma_osec_lex_REQ(a, b) (OVALID(a) && OVALID(b))
#define lemma_osec_lex_ENS(a, b) ((LEXLT(a, b) ? 1 : 0) == (OSEC(a) < OSEC(b) ? 1 : 0) && (FIELDS_EQ(a, b) ? 1 : 0) == (OSEC(a) == OSEC(b) ? 1 : 0) && ZB(OSEC(a), 100) && ZB(OSEC(b), 100))
/* per-type saturation bounds (Load: civil_max/min are the local readings of INT64_MAX/INT64_MIN in that type) */
#define TYWF(z, k) (TYOK(z, k) && OVALID(TY(z, k).civil_max) && OVALID(TY(z, k).civil_min) && \
  OSEC(TY(z, k).civil_max) == (Z)INT64_MAX + TY(z, k).utc_offset + EPOCHSEC && OSEC(TY(z, k).civil_min) == (Z)INT64_MIN + TY(z, k).utc_offset + EPOCHSEC)
#define KIND_UNIQUE civil_lookup_UNIQUE
#define KIND_SKIPPED civil_lookup_SKIPPED
#define KIND_REPEATED civil_lookup_REPEATED
/* the instant at which cs is displayed in a type with offset off, clamped to the time_point range */
#define SAT64(v) ((v) > (Z)INT64_MAX ? (Z)INT64_MAX : ((v) < (Z)INT64_MIN ? (Z)INT64_MIN : (v)))
#define READ_IN(cs, off) (OSEC(cs) - EPOCHSEC - (Z)(off))
#define UNIQ_IS(r, v) ((r).kind == KIND_UNIQUE && (Z)(r).pre == (v) && (Z)(r).trans == (v) && (Z)(r).post == (v))

civil_lookup MakeUnique_tp(time_point_s tp)
__CPROVER_ensures(UNIQ_IS(RV, (Z)tp))
__CPROVER_assigns();
civil_lookup MakeUnique_unix(int_fast64_t unix_time)
__CPROVER_ensures(UNIQ_IS(RV, (Z)unix_time))
__CPROVER_assigns();

/* the two readings of cs around transition *tr, as the code computes them from the table entry */
#define PRE_OF(tr, cs) ((Z)(tr).unix_time - 1 + (OSEC(cs) - OSEC((tr).prev_civil_sec)))
#define POST_OF(tr, cs) ((Z)(tr).unix_time + (OSEC(cs) - OSEC((tr).civil_sec)))
#define TR_CIVIL_OK(tr) (OVALID((tr).civil_sec) && OVALID((tr).prev_civil_sec) && (tr).unix_time > INT64_MIN)
civil_lookup MakeSkipped(Transition tr, fields cs)
__CPROVER_requires(TR_CIVIL_OK(tr) && OVALID(cs))
__CPROVER_requires(FITS64(PRE_OF(tr, cs)))
__CPROVER_requires(FITS64(POST_OF(tr, cs)))
__CPROVER_requires(FITS64(OSEC(cs) - OSEC(tr.prev_civil_sec)))
__CPROVER_requires(FITS64(OSEC(tr.civil_sec) - OSEC(cs)))
__CPROVER_ensures(RV.kind == KIND_SKIPPED && (Z)RV.pre == PRE_OF(tr, cs) && RV.trans == tr.unix_time && (Z)RV.post == POST_OF(tr, cs))
__CPROVER_assigns();
civil_lookup MakeRepeated(Transition tr, fields cs)
__CPROVER_requires(TR_CIVIL_OK(tr) && OVALID(cs))
__CPROVER_requires(FITS64(PRE_OF(tr, cs)))
__CPROVER_requires(FITS64(POST_OF(tr, cs)))
__CPROVER_requires(FITS64(OSEC(tr.prev_civil_sec) - OSEC(cs)))
__CPROVER_requires(FITS64(OSEC(cs) - OSEC(tr.civil_sec)))
__CPROVER_ensures(RV.kind == KIND_REPEATED && (Z)RV.pre == PRE_OF(tr, cs) && RV.trans == tr.unix_time && (Z)RV.post == POST_OF(tr, cs))
__CPROVER_assigns();

/* std::upper_bound by civil time: the end of the unique civil bracket (table sorted by civil_sec: Load checks it) */
static inline const Transition* valg_upper_bound_Transition_ByCivilTime(const Transition* first, const Transition* last, const Transition* value)
{
  const size_t n = (size_t)(last - first);
  if (gz_j >= 1 && gz_j < n && !LEXLT(value->civil_sec, first[gz_j - 1].civil_sec) && LEXLT(value->civil_sec, first[gz_j].civil_sec))
    return first + gz_j;
  const size_t k = nondet_size_t();
  __CPROVER_assume(k <= n);
  return first + k;
}

/* cs lies in the civil bracket ending at transition j:  tr[j-1].civil_sec <= cs < tr[j].civil_sec */
#define CBRACKET(z, j, cs) (1 <= (j) && (j) < NTR(z) && !LEXLT(cs, TR(z, (j) - 1).civil_sec) && LEXLT(cs, TR(z, j).civil_sec))
#define MT_BEFORE(z, cs) (LEXLT(cs, TR(z, 0).civil_sec))
#define MT_AFTER(z, cs) (!LEXLT(cs, TR(z, NTR(z) - 1).civil_sec))
/* a table entry whose two civil readings are within two days of each other and of cs (so the code's differences fit) */
#define NEAR(z, i, cs) (-((Z)1 << 40) < OSEC(cs) - OSEC(TR(z, i).civil_sec) && OSEC(cs) - OSEC(TR(z, i).civil_sec) < ((Z)1 << 62) && \
                        -((Z)1 << 40) < OSEC(cs) - OSEC(TR(z, i).prev_civil_sec))

/* C02: what pre / trans / post mean.  oc = second ordinal of cs; the row changes the offset from offp to offn at instant ut, so it shows
 * prev = ut - 1 + offp + epoch one second before and civ = ut + offn + epoch at the change (WFI).  Then the values MakeSkipped / MakeRepeated
 * return (PRE_OF, POST_OF) are cs read with the offset before / after the change, and they are ordered around trans as the property says. */
#define lemma_prepost_REQ(oc, ut, offp, offn) (ZB(oc, 100) && ZB(ut, 64) && -86400 < (offp) && (offp) < 86400 && -86400 < (offn) && (offn) < 86400)
#define PP_PREV(ut, offp) ((Z)(ut) - 1 + (offp) + EPOCHSEC)
#define PP_CIV(ut, offn) ((Z)(ut) + (offn) + EPOCHSEC)
#define PP_PRE(oc, ut, offp) ((Z)(ut) - 1 + ((Z)(oc) - PP_PREV(ut, offp)))
#define PP_POST(oc, ut, offn) ((Z)(ut) + ((Z)(oc) - PP_CIV(ut, offn)))
#define lemma_prepost_ENS(oc, ut, offp, offn) (PP_PRE(oc, ut, offp) == (Z)(oc) - EPOCHSEC - (offp) && PP_POST(oc, ut, offn) == (Z)(oc) - EPOCHSEC - (offn) && \
  ((PP_PREV(ut, offp) < (oc) && (oc) < PP_CIV(ut, offn)) ? (PP_PRE(oc, ut, offp) >= (ut) && (ut) > PP_POST(oc, ut, offn)) : 1) && \
  ((PP_CIV(ut, offn) <= (oc) && (oc) <= PP_PREV(ut, offp)) ? (PP_PRE(oc, ut, offp) < (ut) && (ut) <= PP_POST(oc, ut, offn)) : 1))

/* table times stay 2^62 away from the ends of int64, so that differences of neighbouring entries are representable
 * (ASSUMED of Load's output - see DESIGN.md, finding D6: Load does not establish it for crafted files) */
#define MARGIN(z, i) (-((Z)1 << 62) <= (Z)TR(z, i).unix_time && (Z)TR(z, i).unix_time <= ((Z)1 << 62))
#define MT_MIDDLE(z, cs) (!MT_BEFORE(z, cs) && !MT_AFTER(z, cs))
#define SKIP_IS(r, tr, cs) ((r).kind == KIND_SKIPPED && (Z)(r).pre == PRE_OF(tr, cs) && (r).trans == (tr).unix_time && (Z)(r).post == POST_OF(tr, cs))
#define REPEAT_IS(r, tr, cs) ((r).kind == KIND_REPEATED && (Z)(r).pre == PRE_OF(tr, cs) && (r).trans == (tr).unix_time && (Z)(r).post == POST_OF(tr, cs))

/* what MakeTime needs of the table (shared with TimeLocal, which calls it on a civil second of the recorded years) */
#define MT_NOT_SHIFTED(z, cs) (!(z)->extended_ || (cs).y <= (z)->last_year_)
#define MT_REQUIRES(self, cs) \
__CPROVER_requires(ZSHAPE(self) && MT_NOT_SHIFTED(self, cs) && !gz_extended && OVALID(cs)) \
__CPROVER_requires(WFI(self, 0) && WFI(self, NTR(self) - 1) && TYWF(self, DEFTY(self)) && TYWF(self, TR(self, NTR(self) - 1).type_index)) \
__CPROVER_requires(TR(self, 0).unix_time < 0 && TR(self, NTR(self) - 1).unix_time >= 0 && MARGIN(self, 0) && MARGIN(self, NTR(self) - 1)) \
/* instance of the civil-time order that Load checks: the first entry shows an earlier civil second than the last */ \
__CPROVER_requires(NTR(self) > 1 ? LEXLT(TR(self, 0).civil_sec, TR(self, NTR(self) - 1).civil_sec) : 1) \
__CPROVER_requires(MT_MIDDLE(self, cs) ? (CBRACKET(self, gz_j, cs) && WFI(self, gz_j) && WFI(self, gz_j - 1) && MARGIN(self, gz_j) && MARGIN(self, gz_j - 1) && \
                    TR(self, gz_j - 1).unix_time < TR(self, gz_j).unix_time) : 1) \
/* uniqueness of the civil bracket: a hint that brackets cs is the same bracket */ \
__CPROVER_requires((0 < gz_hint && gz_hint < NTR(self) && !LEXLT(cs, TR(self, gz_hint - 1).civil_sec) && LEXLT(cs, TR(self, gz_hint).civil_sec)) ? gz_hint == gz_j : 1)

civil_lookup MakeTime(const TimeZoneInfo* self, fields cs)
__CPROVER_requires(1)   /* (keeps the function recognisable as contracted to tools/vdriver.py) */
MT_REQUIRES(self, cs)
/* case split of the proof (exhaustive: MT_BEFORE / MT_AFTER / MT_MIDDLE = neither): one goal per case, selected by -DMT_CASE */
#if defined(MT_CASE) && MT_CASE == 1
__CPROVER_requires(MT_BEFORE(self, cs))
#elif defined(MT_CASE) && MT_CASE == 2
__CPROVER_requires(!MT_BEFORE(self, cs) && MT_AFTER(self, cs))
#elif defined(MT_CASE) && MT_CASE == 3
__CPROVER_requires(MT_MIDDLE(self, cs))
#endif
/* before the first transition */
__CPROVER_ensures((MT_BEFORE(self, cs) && !LEXLT(TR(self, 0).prev_civil_sec, cs)) ? UNIQ_IS(RV, SAT64(READ_IN(cs, TY(self, DEFTY(self)).utc_offset))) : 1)
__CPROVER_ensures((MT_BEFORE(self, cs) && LEXLT(TR(self, 0).prev_civil_sec, cs)) ? (RV.kind == KIND_SKIPPED && RV.trans == (TR(self, 0)).unix_time) : 1)
__CPROVER_ensures((MT_BEFORE(self, cs) && LEXLT(TR(self, 0).prev_civil_sec, cs)) ? ((Z)RV.pre == PRE_OF(TR(self, 0), cs)) : 1)
__CPROVER_ensures((MT_BEFORE(self, cs) && LEXLT(TR(self, 0).prev_civil_sec, cs)) ? ((Z)RV.post == POST_OF(TR(self, 0), cs)) : 1)
/* after the last transition */
__CPROVER_ensures((MT_AFTER(self, cs) && LEXLT(TR(self, NTR(self) - 1).prev_civil_sec, cs)) ? UNIQ_IS(RV, SAT64(READ_IN(cs, TY(self, TR(self, NTR(self) - 1).type_index).utc_offset))) : 1)
__CPROVER_ensures((MT_AFTER(self, cs) && !LEXLT(TR(self, NTR(self) - 1).prev_civil_sec, cs)) ? (RV.kind == KIND_REPEATED && RV.trans == (TR(self, NTR(self) - 1)).unix_time) : 1)
__CPROVER_ensures((MT_AFTER(self, cs) && !LEXLT(TR(self, NTR(self) - 1).prev_civil_sec, cs)) ? ((Z)RV.pre == PRE_OF(TR(self, NTR(self) - 1), cs)) : 1)
__CPROVER_ensures((MT_AFTER(self, cs) && !LEXLT(TR(self, NTR(self) - 1).prev_civil_sec, cs)) ? ((Z)RV.post == POST_OF(TR(self, NTR(self) - 1), cs)) : 1)
/* between two transitions: skipped at j, repeated at j-1, or unique in the type of j-1 */
__CPROVER_ensures((MT_MIDDLE(self, cs) && LEXLT(TR(self, gz_j).prev_civil_sec, cs)) ? (RV.kind == KIND_SKIPPED && RV.trans == (TR(self, gz_j)).unix_time) : 1)
__CPROVER_ensures((MT_MIDDLE(self, cs) && LEXLT(TR(self, gz_j).prev_civil_sec, cs)) ? ((Z)RV.pre == PRE_OF(TR(self, gz_j), cs)) : 1)
__CPROVER_ensures((MT_MIDDLE(self, cs) && LEXLT(TR(self, gz_j).prev_civil_sec, cs)) ? ((Z)RV.post == POST_OF(TR(self, gz_j), cs)) : 1)
__CPROVER_ensures((MT_MIDDLE(self, cs) && !LEXLT(TR(self, gz_j).prev_civil_sec, cs) && !LEXLT(TR(self, gz_j - 1).prev_civil_sec, cs)) ? (RV.kind == KIND_REPEATED && RV.trans == (TR(self, gz_j - 1)).unix_time) : 1)
__CPROVER_ensures((MT_MIDDLE(self, cs) && !LEXLT(TR(self, gz_j).prev_civil_sec, cs) && !LEXLT(TR(self, gz_j - 1).prev_civil_sec, cs)) ? ((Z)RV.pre == PRE_OF(TR(self, gz_j - 1), cs)) : 1)
__CPROVER_ensures((MT_MIDDLE(self, cs) && !LEXLT(TR(self, gz_j).prev_civil_sec, cs) && !LEXLT(TR(self, gz_j - 1).prev_civil_sec, cs)) ? ((Z)RV.post == POST_OF(TR(self, gz_j - 1), cs)) : 1)
__CPROVER_ensures((MT_MIDDLE(self, cs) && !LEXLT(TR(self, gz_j).prev_civil_sec, cs) && LEXLT(TR(self, gz_j - 1).prev_civil_sec, cs)) ? UNIQ_IS(RV, READ_IN(cs, TY(self, TR(self, gz_j - 1).type_index).utc_offset)) : 1)
__CPROVER_assigns();


/* ---- C10 (kernel): TimeLocal = MakeTime on a year of the recorded table, moved forward by c4_shift * 400 years, saturating at max() ----
 * gz_mt (ghost) is the value the inner MakeTime call returned: the result has the same kind and each instant is that instant plus
 * c4_shift * (seconds in 400 years), or exactly max() when that does not fit. */
extern civil_lookup gz_mt;
#define SATHI(v) ((v) > (Z)INT64_MAX ? (Z)INT64_MAX : (v))
/* shifts above INT64_MAX / P400 cannot be multiplied out in int64: there every field is max() - which is the saturated sum for every
 * non-negative instant (lemma_tl_sat), and the instants of the last recorded 400 years are non-negative (Load ends the table at or after 0) */
#define TL_BIG(c4) ((Z)(c4) > (Z)INT64_MAX / P400)
#define TL_FIELD(f, c4) (TL_BIG(c4) ? (Z)INT64_MAX : SATHI((Z)(f) + (Z)(c4) * P400))
#define lemma_tl_sat_REQ(f, c4) (0 <= (Z)(f) && (Z)(f) <= (Z)INT64_MAX && TL_BIG(c4) && ZB(c4, 64))
#define lemma_tl_sat_ENS(f, c4) (SATHI((Z)(f) + (Z)(c4) * P400) == (Z)INT64_MAX)
civil_lookup TimeLocal(const TimeZoneInfo* self, fields cs, year_t c4_shift)
__CPROVER_requires(1)
MT_REQUIRES(self, cs)
__CPROVER_requires(-((Z)1 << 62) < (Z)self->last_year_ && self->last_year_ - 400 < cs.y && cs.y <= self->last_year_ && c4_shift >= 0)
__CPROVER_ensures(RV.kind == gz_mt.kind)
__CPROVER_ensures((Z)RV.pre == TL_FIELD(gz_mt.pre, c4_shift))
__CPROVER_ensures((Z)RV.trans == TL_FIELD(gz_mt.trans, c4_shift))
__CPROVER_ensures((Z)RV.post == TL_FIELD(gz_mt.post, c4_shift))
__CPROVER_assigns(gz_mt);


/* ---- C11 (kernel): next_transition / prev_transition -------------------------------------------------------------------------------
 * NS = 1 when row 0 is the "big bang" sentinel (unix_time <= -2^59), which is never reported.  A row k "changes nothing" when the type in
 * force before it is equivalent to its own (EQ_AT); like the code, the type in force before the first reportable row is the default type.
 * gz_i names the bracket of tp among the reportable rows (relative to row NS), gz_k is an arbitrary row, gz_r the reported row
 * (a prophecy variable, resolved by a ghost assume at the point where the code has chosen the row). */
extern size_t gz_r;
#define NS(z) ((size_t)(TR(z, 0).unix_time <= -((int_fast64_t)1 << 59) ? 1 : 0))
#define PREVTY_N(z, k) ((k) == NS(z) ? (size_t)DEFTY(z) : (size_t)TR(z, (k) - 1).type_index)
#define EQ_AT(z, k) EQUIV_TY(z, PREVTY_N(z, k), (size_t)TR(z, k).type_index)
#define NT_BRK(z, t) (NS(z) + gz_i + 1 < NTR(z) && TR(z, NS(z) + gz_i).unix_time <= (t) && (t) < TR(z, NS(z) + gz_i + 1).unix_time)
#define NT_EMPTY(z) (NTR(z) == NS(z))
#define NT_KNOWN(z, t) (NT_EMPTY(z) || (t) < TR(z, NS(z)).unix_time || (t) >= TR(z, NTR(z) - 1).unix_time || NT_BRK(z, t))
/* first row strictly after t */
#define NT_K(z, t) (NT_EMPTY(z) ? NTR(z) : ((t) < TR(z, NS(z)).unix_time ? NS(z) : ((t) >= TR(z, NTR(z) - 1).unix_time ? NTR(z) : NS(z) + gz_i + 1)))
#define TRANS_IS(z, trans, r) (FIELDS_EQ((trans)->to, TR(z, r).civil_sec) && OVALID((trans)->from) && OSEC((trans)->from) == OSEC(TR(z, r).prev_civil_sec) + 1)

/* case split of the two proofs (exhaustive): NT_CASE = 2 * (row 0 is the sentinel) + (tp lies before every reportable row or the table has none / otherwise) */
#if defined(NT_CASE) && NT_CASE == 0
#define NT_CASE_REQUIRES(z, t) __CPROVER_requires(NS(z) == 0 && (NT_EMPTY(z) || (t) < TR(z, NS(z)).unix_time))
#elif defined(NT_CASE) && NT_CASE == 1
#define NT_CASE_REQUIRES(z, t) __CPROVER_requires(NS(z) == 0 && !(NT_EMPTY(z) || (t) < TR(z, NS(z)).unix_time))
#elif defined(NT_CASE) && NT_CASE == 2
#define NT_CASE_REQUIRES(z, t) __CPROVER_requires(NS(z) == 1 && (NT_EMPTY(z) || (t) < TR(z, NS(z)).unix_time))
#elif defined(NT_CASE) && NT_CASE == 3
#define NT_CASE_REQUIRES(z, t) __CPROVER_requires(NS(z) == 1 && !(NT_EMPTY(z) || (t) < TR(z, NS(z)).unix_time))
#else
#define NT_CASE_REQUIRES(z, t)
#endif
bool NextTransition(const TimeZoneInfo* self, time_point_s tp, civil_transition* trans)
__CPROVER_requires(ZSHAPE256(self) && __CPROVER_is_fresh(trans, sizeof(civil_transition)) && !gz_extended)
NT_CASE_REQUIRES(self, tp)
__CPROVER_requires(gz_r < NTR(self) ? (WFI(self, gz_r) && MARGIN(self, gz_r)) : 1)
/* instance of the order by unix_time: the reported row is not earlier than the first row after tp */
__CPROVER_requires((NT_K(self, tp) < NTR(self) && NT_K(self, tp) <= gz_r && gz_r < NTR(self)) ? TR(self, NT_K(self, tp)).unix_time <= TR(self, gz_r).unix_time : 1)
/* reported: a row strictly after tp, whose change is real, with from/to read off that row */
__CPROVER_ensures((NT_KNOWN(self, tp) && RV) ? (NT_K(self, tp) <= gz_r && gz_r < NTR(self) && !EQ_AT(self, gz_r)) : 1)
__CPROVER_ensures((NT_KNOWN(self, tp) && RV) ? TRANS_IS(self, trans, gz_r) : 1)
__CPROVER_ensures((NT_KNOWN(self, tp) && RV) ? TR(self, gz_r).unix_time > tp : 1)
/* earliest: every row after tp and before the reported one changes nothing; nothing reported: every row after tp changes nothing */
__CPROVER_ensures((NT_KNOWN(self, tp) && RV && NT_K(self, tp) <= gz_k && gz_k < gz_r) ? EQ_AT(self, gz_k) : 1)
__CPROVER_ensures((NT_KNOWN(self, tp) && !RV && NT_K(self, tp) <= gz_k && gz_k < NTR(self)) ? EQ_AT(self, gz_k) : 1)
__CPROVER_assigns(*trans);


/* prev_transition: PT_L = first row at or after tp; the reported row is the last row before it whose change is real */
#define PT_BRK(z, t) (NS(z) + gz_i + 1 < NTR(z) && TR(z, NS(z) + gz_i).unix_time < (t) && (t) <= TR(z, NS(z) + gz_i + 1).unix_time)
#define PT_KNOWN(z, t) (NT_EMPTY(z) || (t) <= TR(z, NS(z)).unix_time || (t) > TR(z, NTR(z) - 1).unix_time || PT_BRK(z, t))
#define PT_L(z, t) (NT_EMPTY(z) ? NS(z) : ((t) <= TR(z, NS(z)).unix_time ? NS(z) : ((t) > TR(z, NTR(z) - 1).unix_time ? NTR(z) : NS(z) + gz_i + 1)))
bool PrevTransition(const TimeZoneInfo* self, time_point_s tp, civil_transition* trans)
__CPROVER_requires(ZSHAPE256(self) && __CPROVER_is_fresh(trans, sizeof(civil_transition)) && !gz_extended)
__CPROVER_requires(gz_r < NTR(self) ? (WFI(self, gz_r) && MARGIN(self, gz_r)) : 1)
/* instance of the order by unix_time: the reported row is not later than the last row before tp */
__CPROVER_requires((PT_L(self, tp) >= 1 && gz_r < PT_L(self, tp)) ? TR(self, gz_r).unix_time <= TR(self, PT_L(self, tp) - 1).unix_time : 1)
__CPROVER_ensures((PT_KNOWN(self, tp) && RV) ? (NS(self) <= gz_r && gz_r < PT_L(self, tp) && !EQ_AT(self, gz_r)) : 1)
__CPROVER_ensures((PT_KNOWN(self, tp) && RV) ? TRANS_IS(self, trans, gz_r) : 1)
__CPROVER_ensures((PT_KNOWN(self, tp) && RV) ? TR(self, gz_r).unix_time < tp : 1)
__CPROVER_ensures((PT_KNOWN(self, tp) && RV && gz_r < gz_k && gz_k < PT_L(self, tp)) ? EQ_AT(self, gz_k) : 1)
__CPROVER_ensures((PT_KNOWN(self, tp) && !RV && NS(self) <= gz_k && gz_k < PT_L(self, tp)) ? EQ_AT(self, gz_k) : 1)
__CPROVER_assigns(*trans);

#pragma CPROVER check pop
