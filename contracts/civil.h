/* /verif/contracts/civil.h - contracts for include/cctz/civil_time_detail.h (unit civil).
 * Function contracts live on declarations; loop contracts are in units/civil_loops.py. */
#include "/verif/spec/gregorian.h"
#pragma CPROVER check push
#pragma CPROVER check disable "signed-overflow"
#pragma CPROVER check disable "conversion"

/* proof steps usable in ghost code and lemma harnesses: STEP states a cut (obligation, then available);
 * USE applies an already proved lemma (its hypothesis is an obligation, its conclusion is then available) */
#define STEP(P, msg) do { __CPROVER_assert(P, msg); __CPROVER_assume(P); } while (0)
#define USE(REQ, ENS, msg) do { __CPROVER_assert(REQ, "hypothesis of " msg); __CPROVER_assume(ENS); } while (0)

/* place of a 64-bit year in the 400-year cycle, kept OPAQUE: the definition IDX400(x) == x mod 400 is revealed
 * only where a proof needs it, so that formulas do not fill up with 64-bit division circuits */
int __CPROVER_uninterpreted_idx400(year_t x);
#define IDX400(x) __CPROVER_uninterpreted_idx400(x)
#define REVEAL_IDX400(x) __CPROVER_assume(IDX400(x) == (int)FM(x, 400))

/* the small-year ordinal / leap flag / cycle index as OPAQUE function symbols.  Inside n_day only the lemma facts
 * about them are used (stated with these symbols); each lemma's own proof reveals the definitions. */
int __CPROVER_uninterpreted_ordi(int e, int m, int d);
int __CPROVER_uninterpreted_leapi(int e);
int __CPROVER_uninterpreted_fmi(int e);
#define ORDI(e, m, d) __CPROVER_uninterpreted_ordi(e, m, d)
#define LEAPI(e) (__CPROVER_uninterpreted_leapi(e) != 0)
#define FMI(e) __CPROVER_uninterpreted_fmi(e)
#define REVEAL_ORDI(e, m, d) __CPROVER_assume(ORDI(e, m, d) == ORD_I(e, m, d))
#define REVEAL_LEAPI(e) __CPROVER_assume(__CPROVER_uninterpreted_leapi(e) == (LEAP_I(e) ? 1 : 0))
#define REVEAL_FMI(e) __CPROVER_assume(FMI(e) == FM400_I(e))

bool is_leap_year(year_t y)
__CPROVER_ensures(__CPROVER_return_value == (LEAP(y) ? 1 : 0))
__CPROVER_ensures(__CPROVER_return_value == (LEAPI(IDX400(y)) ? 1 : 0))
__CPROVER_assigns();

int year_index(year_t y, month_t m)
__CPROVER_requires(1 <= m && m <= 12 && y < INT64_MAX)
__CPROVER_ensures(__CPROVER_return_value == IDX400(y + (m > 2 ? 1 : 0)))
__CPROVER_ensures(0 <= __CPROVER_return_value && __CPROVER_return_value < 400)
__CPROVER_assigns();

int days_per_century(int yi)
__CPROVER_requires(0 <= yi && yi < 400)
__CPROVER_ensures(__CPROVER_return_value == SK(yi + 100) - SK(yi))
__CPROVER_assigns();

int days_per_4years(int yi)
__CPROVER_requires(0 <= yi && yi < 400)
__CPROVER_ensures(__CPROVER_return_value == SK(yi + 4) - SK(yi))
__CPROVER_assigns();

int days_per_year(year_t y, month_t m)
__CPROVER_requires(1 <= m && m <= 12 && y < INT64_MAX)
__CPROVER_ensures(__CPROVER_return_value == 365 + (LEAPI(IDX400(y + (m > 2 ? 1 : 0))) ? 1 : 0))
__CPROVER_assigns();

int days_per_month(year_t y, month_t m)
__CPROVER_requires(1 <= m && m <= 12)
__CPROVER_ensures(__CPROVER_return_value == DIM(LEAPI(IDX400(y)), m))
__CPROVER_assigns();

/* ---- code-free lemmas used as ghost calls inside n_day ----
 * Each lemma L has macros L_REQ / L_ENS; the contract below is what callers assume, and the
 * plain harness pl_L in harness/civil.c (assume L_REQ; proof steps; assert L_ENS) is what proves it. */
#define K400(qc, qd) ((qc) * 400 + (qd) * 400)
#define QBOUND ((year_t)1 << 47)
#define SMALLY(e) (-3000 <= (e) && (e) <= 3000)

/* quotients of int64 by 146097 are small */
#define lemma_quot_bounds_REQ(cd, d, qc, qd, rc, rd) ((qc) == (cd) / 146097 && (qd) == (d) / 146097 && (rc) == (cd) % 146097 && (rd) == (d) % 146097)
#define lemma_quot_bounds_ENS(cd, d, qc, qd, rc, rd) \
  (-QBOUND < (qc) && (qc) < QBOUND && -QBOUND < (qd) && (qd) < QBOUND && -146097 < (rc) && (rc) < 146097 && -146097 < (rd) && (rd) < 146097 && \
   (Z)(cd) == (Z)146097 * (qc) + (rc) && (Z)(d) == (Z)146097 * (qd) + (rd))

/* a year x that is a multiple of 400 away from a small year e has that small year's place in the cycle */
#define lemma_shift400_REQ(x, qc, qd, e) \
  (-QBOUND < (qc) && (qc) < QBOUND && -QBOUND < (qd) && (qd) < QBOUND && SMALLY(e) && (Z)(e) == (Z)(x) - (Z)K400(qc, qd))
#define lemma_shift400_ENS(x, qc, qd, e) (IDX400(x) == FMI(e))

/* ---- small arithmetic lemmas (each proved on its own, with only its own hypotheses) ---- */
#define FITS64(v) ((Z)INT64_MIN <= (v) && (v) <= (Z)INT64_MAX)
#define ZB(v, bits) (-((Z)1 << (bits)) < (Z)(v) && (Z)(v) < ((Z)1 << (bits)))
/* truncating division identity for the 400-year cycle length */
#define lemma_div146097_REQ(x) (1)
#define lemma_div146097_ENS(x) ((Z)(x) == (Z)146097 * ((x) / 146097) + (x) % 146097 && -146097 < (x) % 146097 && (x) % 146097 < 146097 && \
                                -QBOUND < (x) / 146097 && (x) / 146097 < QBOUND)
/* y = 400*(y/400) + y%400 */
#define lemma_div400_REQ(y) (1)
#define lemma_div400_ENS(y) ((Z)(y) == (Z)400 * ((y) / 400) + (y) % 400 && -400 < (y) % 400 && (y) % 400 < 400)
/* floor quotients shift exactly under a shift of the dividend by 400k   (e, k : Z; c a small constant) */
#define lemma_fdshift_REQ(e, k, c) (ZB(e, 68) && ZB(k, 68) && 0 <= (c) && (c) < 400)
#define lemma_fdshift4_ENS(e, k, c) (FD((Z)((e) + 400 * (k)) + (c), 4) == FD((Z)(e) + (c), 4) + 100 * (k))
#define lemma_fdshift100_ENS(e, k, c) (FD((Z)((e) + 400 * (k)) + (c), 100) == FD((Z)(e) + (c), 100) + 4 * (k))
#define lemma_fdshift400_ENS(e, k, c) (FD((Z)((e) + 400 * (k)) + (c), 400) == FD((Z)(e) + (c), 400) + (k))
/* remainders are 400-periodic */
#define lemma_fmshift_REQ(e, k) (ZB(e, 67) && ZB(k, 67))
#define lemma_fmshift_ENS(e, k) (FM((Z)((e) + 400 * (k)), 400) == FM((Z)(e), 400))
/* leap status depends only on the place in the 400-year cycle */
#define lemma_leapidx_REQ(Y) (ZB(Y, 68))
#define lemma_leapidx_ENS(Y) ((LEAP((Z)(Y)) ? 1 : 0) == (LEAP(FM((Z)(Y), 400)) ? 1 : 0))
/* hence leap status and ordinals are 400-periodic */
#define lemma_period_REQ(e, k, m, d) (ZB(e, 64) && ZB(k, 57) && 1 <= (m) && (m) <= 12 && 1 <= (d) && (d) <= 31)
#define lemma_period_ENS(e, k, m, d) (ORD((e) + 400 * (k), m, d) == ORD(e, m, d) + (Z)146097 * (k) && \
                                      (LEAP((Z)((e) + 400 * (k))) ? 1 : 0) == (LEAP((Z)(e)) ? 1 : 0))
/* equal years have equal ordinals (instantiated where two spellings of one year must be identified) */
#define lemma_cong_REQ(A, B, m, d) ((Z)(A) == (Z)(B))
#define lemma_cong_ENS(A, B, m, d) (ORD(A, m, d) == ORD(B, m, d) && (LEAP((Z)(A)) ? 1 : 0) == (LEAP((Z)(B)) ? 1 : 0))
/* congruence in both year and month */
#define lemma_cong2_REQ(A, B, ma, mb, d) ((Z)(A) == (Z)(B) && (ma) == (mb))
#define lemma_cong2_ENS(A, B, ma, mb, d) (ORD(A, ma, d) == ORD(B, mb, d))
/* an ordinal lies within its year, and years are ordered like their first days */
#define lemma_ordyear_REQ(Y, m, d) (ZB(Y, 66) && 1 <= (m) && (m) <= 12 && 1 <= (d) && (d) <= 31)
#define lemma_ordyear_ENS(Y, m, d) (ORDY(Y) <= ORD(Y, m, d) && ORD(Y, m, d) < ORDY((Z)(Y) + 1) && \
                                    (!((Z)(Y) > INT64_MAX) || ORDY(Y) > ORD_MAX) && (!((Z)(Y) < INT64_MIN) || ORDY((Z)(Y) + 1) <= ORD_MIN))

/* two purely linear facts over opaque quantities, used to finish lemma_nday_lift */
#define lemma_lin_lift_REQ(oRY, oE1, oE, oY, oO1, oO, iE, iO, k0, k1, qc, qd, rc, rd, d0, cd0) \
  ((oRY) == (oE1) && (oE1) == (oE) + (Z)146097 * (k1) && (oY) == (oO1) && (oO1) == (oO) + (Z)146097 * (k0) && \
   (oE) == (Z)(iE) && (oO) == (Z)(iO) && (iE) == (iO) + ((int)(rc) + (int)(rd)) - 1 && -(1 << 24) < (iO) && (iO) < (1 << 24) && (k1) == (k0) + (Z)(qc) + (Z)(qd) && \
   (Z)(cd0) == (Z)146097 * (qc) + (rc) && (Z)(d0) == (Z)146097 * (qd) + (rd) && -146097 < (rc) && (rc) < 146097 && -146097 < (rd) && (rd) < 146097)
#define lemma_lin_lift_ENS(oRY, oE1, oE, oY, oO1, oO, iE, iO, k0, k1, qc, qd, rc, rd, d0, cd0) \
  ((oRY) == (oY) + (Z)(d0) - 1 + (Z)(cd0))
#define lemma_lin_fits_REQ(RY, oy, oy1, o, T, omin, omax) \
  ((oy) <= (o) && (o) < (oy1) && (!((Z)(RY) > INT64_MAX) || (oy) > (omax)) && (!((Z)(RY) < INT64_MIN) || (oy1) <= (omin)) && \
   (omin) <= (T) && (T) <= (omax) && (o) == (T))
#define lemma_lin_fits_ENS(RY, oy, oy1, o, T, omin, omax) (FITS64((Z)(RY)))

#define NDAY_T(y, m, d, cd) (ORD(y, m, 1) + (Z)(d) - 1 + (Z)(cd))
#define LIFT_E(ey, qc, qd) ((Z)(ey) - (Z)K400(qc, qd))
#define LIFT_RY(y, ey, oey) ((Z)(y) + (Z)(ey) - (Z)(oey))
#define LIFT_R(rc, rd) ((int)(rc) + (int)(rd))
#define WRAP_RY(y, ey, oey) ((year_t)((uint64_t)(y) + ((uint64_t)(ey) - (uint64_t)(oey))))

/* from the small-year conservation law to the 64-bit year / 128-bit ordinal;
 * ry is the result year exactly as the code computes it, y + (ey - oey), with wrap-around made explicit */
#define lemma_nday_lift_REQ(y, m0, d0, cd0, qc, qd, rc, rd, ey, oey, m1, d1, ry) \
  (1 <= (m0) && (m0) <= 12 && 1 <= (m1) && (m1) <= 12 && 1 <= (d1) && (d1) <= 31 && (oey) == (y) % 400 && \
   (ry) == WRAP_RY(y, ey, oey) && \
   -QBOUND < (qc) && (qc) < QBOUND && -QBOUND < (qd) && (qd) < QBOUND && -146097 < (rc) && (rc) < 146097 && -146097 < (rd) && (rd) < 146097 && \
   (Z)(cd0) == (Z)146097 * (qc) + (rc) && (Z)(d0) == (Z)146097 * (qd) + (rd) && \
   ORD_MIN <= NDAY_T(y, m0, d0, cd0) && NDAY_T(y, m0, d0, cd0) <= ORD_MAX && \
   -1300 <= LIFT_E(ey, qc, qd) && LIFT_E(ey, qc, qd) <= 2100 && \
   ORDI((int)LIFT_E(ey, qc, qd), m1, (int)(d1)) == ORDI((int)(oey), m0, 1) + LIFT_R(rc, rd) - 1)
#define lemma_nday_lift_ENS(y, m0, d0, cd0, qc, qd, rc, rd, ey, oey, m1, d1, ry) \
  (FITS64(LIFT_RY(y, ey, oey)) && (Z)(ry) == LIFT_RY(y, ey, oey) && \
   ORD(ry, m1, d1) == NDAY_T(y, m0, d0, cd0) && \
   (LEAP((Z)(ry)) ? 1 : 0) == (LEAPI((int)LIFT_E(ey, qc, qd)) ? 1 : 0))

/* ---- facts about the small (32-bit) ordinal ORD_I used step by step inside n_day ---- */
#define SMALL_E(e) (-3000 <= (e) && (e) <= 3000)
/* anchor: the cheap small-year forms agree with the specification */
#define lemma_I_anchor_REQ(e, m, d) (I_DOMAIN(e) && 1 <= (m) && (m) <= 12 && 1 <= (d) && (d) <= 31)
#define lemma_I_anchor_ENS(e, m, d) ((Z)ORD_I(e, m, d) == ORD((Z)(e), m, d) && (LEAP_I(e) ? 1 : 0) == (LEAP(e) ? 1 : 0) && FM400_I(e) == FM(e, 400))
#define lemma_I_sk_REQ(k) (0 <= (k) && (k) <= 1000)
#define lemma_I_sk_ENS(k) (SK(k) == SK_D(k))
#define CYCM(m) ((m) > 2 ? 1 : 0)
#define lemma_I_period_REQ(e, j, m, d) (SMALL_E(e) && -3 <= (j) && (j) <= 3 && 1 <= (m) && (m) <= 12 && 1 <= (d) && (d) <= 31)
#define lemma_I_period_ENS(e, j, m, d) (ORDI((e) + 400 * (j), m, d) == ORDI(e, m, d) + 146097 * (j))
#define lemma_I_leapidx_REQ(e) (SMALL_E(e))
#define lemma_I_leapidx_ENS(e) ((LEAPI(FMI(e)) ? 1 : 0) == (LEAPI(e) ? 1 : 0) && 0 <= FMI(e) && FMI(e) < 400)
/* the cycle index advances with the year */
#define lemma_I_fmstep_REQ(e, c) (SMALL_E(e) && 0 <= (c) && (c) <= 100)
#define lemma_I_fmstep_ENS(e, c) (FMI((e) + (c)) == (FMI(e) + (c) >= 400 ? FMI(e) + (c) - 400 : FMI(e) + (c)))
#define lemma_I_yearstep_REQ(e, m) (SMALL_E(e) && 1 <= (m) && (m) <= 12)
#define lemma_I_yearstep_ENS(e, m) (ORDI((e) + 1, m, 1) == ORDI(e, m, 1) + 365 + (LEAPI((e) + CYCM(m)) ? 1 : 0))
#define lemma_I_centstep_REQ(e, m) (SMALL_E(e) && 1 <= (m) && (m) <= 12)
#define lemma_I_centstep_ENS(e, m) (ORDI((e) + 100, m, 1) == ORDI(e, m, 1) + (SK(FMI((e) + CYCM(m)) + 100) - SK(FMI((e) + CYCM(m)))))
#define lemma_I_4step_REQ(e, m) (SMALL_E(e) && 1 <= (m) && (m) <= 12)
#define lemma_I_4step_ENS(e, m) (ORDI((e) + 4, m, 1) == ORDI(e, m, 1) + (SK(FMI((e) + CYCM(m)) + 4) - SK(FMI((e) + CYCM(m)))))
#define lemma_I_monthstep_REQ(e, m) (SMALL_E(e) && 1 <= (m) && (m) <= 12)
#define lemma_I_monthstep_ENS(e, m) ((m) < 12 ? ORDI(e, (m) + 1, 1) == ORDI(e, m, 1) + DIM(LEAPI(e), m) : ORDI((e) + 1, 1, 1) == ORDI(e, 12, 1) + 31)
/* the ordinal is affine in the day of the month */
#define lemma_I_day_REQ(e, m, d) (SMALL_E(e) && 1 <= (m) && (m) <= 12 && 1 <= (d) && (d) <= 400)
#define lemma_I_day_ENS(e, m, d) (ORDI(e, m, d) == ORDI(e, m, 1) + (d) - 1)

/* ---- opaque vocabulary for the carry chain -------------------------------------------------------
 * The contracts of n_day .. n_sec, the constructors, step/difference and the operators are stated over
 * OPAQUE symbols; a proof reveals a definition only at the terms where it needs it.  This keeps 128-bit
 * division circuits out of every obligation that does not need them, and lets the solver identify the
 * argument copies made at call sites by congruence instead of by re-deriving a divider's output. */
Z __CPROVER_uninterpreted_dayord(year_t y, int m, int d);           /* == ORD(y,m,d) */
int __CPROVER_uninterpreted_validd(year_t y, int m, int d);         /* == VALID_YMD(y,m,d) */
Z __CPROVER_uninterpreted_monbase(year_t y, diff_t m);              /* == ORD(Y1,M1,1): first day of month m carried into the year */
int __CPROVER_uninterpreted_nmon_pre(year_t y, diff_t m, diff_t d, Z cd); /* representability bound of the property */
int __CPROVER_uninterpreted_nday_pre(year_t y, int m, diff_t d, diff_t cd);
Z __CPROVER_uninterpreted_fd24(Z x);   /* floor(x/24) */
Z __CPROVER_uninterpreted_fm24(Z x);   /* x mod 24 in 0..23 */
Z __CPROVER_uninterpreted_fd60(Z x);
Z __CPROVER_uninterpreted_fm60(Z x);
Z __CPROVER_uninterpreted_mul24(Z x);
Z __CPROVER_uninterpreted_mul60(Z x);
#define MUL24(x) __CPROVER_uninterpreted_mul24(x)
#define MUL60(x) __CPROVER_uninterpreted_mul60(x)
#define REVEAL_MUL(x) __CPROVER_assume(MUL24(x) == (Z)(x) * 24 && MUL60(x) == (Z)(x) * 60)
#define FD24(x) __CPROVER_uninterpreted_fd24(x)
#define FM24(x) __CPROVER_uninterpreted_fm24(x)
#define FD60(x) __CPROVER_uninterpreted_fd60(x)
#define FM60(x) __CPROVER_uninterpreted_fm60(x)
#define REVEAL_DM24(x) __CPROVER_assume(FD24(x) == FD((Z)(x), 24) && FM24(x) == FM((Z)(x), 24))
#define REVEAL_DM60(x) __CPROVER_assume(FD60(x) == FD((Z)(x), 60) && FM60(x) == FM((Z)(x), 60))
/* facts about them (each an instance of a lemma proved with the definitions revealed) */
#define lemma_dm_range_REQ(x) (ZB(x, 100))
#define lemma_dm_range_ENS(x) (0 <= FM24(x) && FM24(x) < 24 && 0 <= FM60(x) && FM60(x) < 60 && (Z)(x) == 24 * FD24(x) + FM24(x) && (Z)(x) == 60 * FD60(x) + FM60(x) && \
  ((Z)(x) >= 0 ? (0 <= FD60(x) && FD60(x) <= (Z)(x) && 0 <= FD24(x) && FD24(x) <= (Z)(x)) : ((Z)(x) <= FD60(x) && FD60(x) < 0 && (Z)(x) <= FD24(x) && FD24(x) < 0)))
/* truncating split of one int64:  x/n + floor((x%n)/n) == floor(x/n)  and the remainders agree */
#define lemma_split1_REQ(x) (1)
#define lemma_split1_ENS(x) ((Z)((x) / 24) + FD24((Z)((x) % 24)) == FD24((Z)(x)) && FM24((Z)((x) % 24)) == FM24((Z)(x)) && \
                             (Z)((x) / 60) + FD60((Z)((x) % 60)) == FD60((Z)(x)) && FM60((Z)((x) % 60)) == FM60((Z)(x)))
/* truncating split of a sum of two int64 */
#define lemma_split2_REQ(a, b) (1)
#define lemma_split2_ENS(a, b) ((Z)((a) / 24 + (b) / 24) + FD24((Z)((a) % 24 + (b) % 24)) == FD24((Z)(a) + (Z)(b)) && FM24((Z)((a) % 24 + (b) % 24)) == FM24((Z)(a) + (Z)(b)) && \
                                (Z)((a) / 60 + (b) / 60) + FD60((Z)((a) % 60 + (b) % 60)) == FD60((Z)(a) + (Z)(b)) && FM60((Z)((a) % 60 + (b) % 60)) == FM60((Z)(a) + (Z)(b)))
/* the code's carry idiom: q = x / n; r = x % n; if (r < 0) { q -= 1; r += n; }  computes floor quotient and remainder */
#define lemma_carry_REQ(x) (1)
#define lemma_carry_ENS(x) ((((x) % 24 < 0) ? ((Z)((x) / 24) - 1 == FD24((Z)(x)) && (Z)((x) % 24 + 24) == FM24((Z)(x))) : ((Z)((x) / 24) == FD24((Z)(x)) && (Z)((x) % 24) == FM24((Z)(x)))) && \
                            (((x) % 60 < 0) ? ((Z)((x) / 60) - 1 == FD60((Z)(x)) && (Z)((x) % 60 + 60) == FM60((Z)(x))) : ((Z)((x) / 60) == FD60((Z)(x)) && (Z)((x) % 60) == FM60((Z)(x)))))
/* an already reduced value */
#define lemma_dm_small_REQ(x) (1)
#define lemma_dm_small_ENS(x) (((0 <= (x) && (x) < 24) ? (FD24((Z)(x)) == 0 && FM24((Z)(x)) == (x)) : 1) && ((0 <= (x) && (x) < 60) ? (FD60((Z)(x)) == 0 && FM60((Z)(x)) == (x)) : 1))
#define DAYORD(y, m, d) __CPROVER_uninterpreted_dayord(y, m, d)
#define VALIDD(y, m, d) (__CPROVER_uninterpreted_validd(y, m, d) != 0)
#define MONBASE(y, m) __CPROVER_uninterpreted_monbase(y, m)
#define NMON_PRE(y, m, d, cd) (__CPROVER_uninterpreted_nmon_pre(y, m, d, cd) != 0)
#define NDAY_PRE(y, m, d, cd) (__CPROVER_uninterpreted_nday_pre(y, m, d, cd) != 0)
/* definitions */
#define NMON_Y1(y, m) ((Z)(y) + FD((Z)(m) - 1, 12))
#define NMON_M1(m) ((int)FM((Z)(m) - 1, 12) + 1)
#define NMON_T(y, m, d, cd) (ORD(NMON_Y1(y, m), NMON_M1(m), 1) + (Z)(d) - 1 + (Z)(cd))
#define NDAY_PRE_DEF(y, m, d, cd) (ORD_MIN <= NDAY_T(y, m, d, cd) && NDAY_T(y, m, d, cd) <= ORD_MAX)
#define NMON_PRE_DEF(y, m, d, cd) (FITS64(NMON_Y1(y, m)) && ORD_MIN <= NMON_T(y, m, d, cd) && NMON_T(y, m, d, cd) <= ORD_MAX)
/* reveal a definition at one argument tuple (an instance of the defining axiom) */
#define REVEAL_DAYORD(y, m, d) __CPROVER_assume(DAYORD(y, m, d) == ORD(y, m, d))
#define REVEAL_VALIDD(y, m, d) __CPROVER_assume(VALIDD(y, m, d) == (VALID_YMD(y, m, d) ? 1 : 0))
#define REVEAL_MONBASE(y, m) __CPROVER_assume(MONBASE(y, m) == ORD(NMON_Y1(y, m), NMON_M1(m), 1))
#define REVEAL_NDAY_PRE(y, m, d, cd) __CPROVER_assume(NDAY_PRE(y, m, d, cd) == (NDAY_PRE_DEF(y, m, d, cd) ? 1 : 0))
#define REVEAL_NMON_PRE(y, m, d, cd) __CPROVER_assume(NMON_PRE(y, m, d, cd) == (NMON_PRE_DEF(y, m, d, cd) ? 1 : 0))
#define RV __CPROVER_return_value
#define RVDAY DAYORD(RV.y, RV.m, RV.d)
#define RVVALID (1 <= RV.m && RV.m <= 12 && 1 <= RV.d && RV.d <= 31 && VALIDD(RV.y, RV.m, RV.d))

/* day ordinals of 64-bit years are far inside the 128-bit range (so inequalities between them do not wrap) */
#define lemma_ordbound_REQ(y, m, d) (1)
#define lemma_ordbound_ENS(y, m, d) (ZB(ORD(y, m, d), 80))
#define BOUND_DAYORD(y, m, d) __CPROVER_assume(ZB(DAYORD(y, m, d), 80))   /* instance of lemma_ordbound under DAYORD's definition */

/* a day 1..28 of a month 1..12 is a valid date, counted from that month's base */
#define lemma_valid28_REQ(y, m, d) (1 <= (m) && (m) <= 12 && 1 <= (d) && (d) <= 28)
#define lemma_valid28_ENS(y, m, d) (VALIDD(y, m, d) && DAYORD(y, m, d) == MONBASE(y, (diff_t)(m)) + (Z)(d) - 1)

/* n_day: the result is the valid date whose day ordinal is ORD(y,m,1) + d - 1 + cd */
fields n_day(year_t y, month_t m, diff_t d, diff_t cd, hour_t hh, minute_t mm, second_t ss)
__CPROVER_requires(1 <= m && m <= 12)
__CPROVER_requires(NDAY_PRE(y, m, d, cd))
__CPROVER_ensures(RV.hh == hh && RV.mm == mm && RV.ss == ss)
__CPROVER_ensures(RVVALID)
__CPROVER_ensures(RVDAY == DAYORD(y, m, 1) + (Z)d - 1 + (Z)cd)
__CPROVER_ensures((cd == 0 && 1 <= d && d <= 28) ? (RV.y == y && RV.m == m && RV.d == d) : 1)
__CPROVER_assigns();

/* ---- the carry chain above n_day (C04): month m (any int64) is first carried into the year, then days are
 * counted from the first of that month: result day ordinal = MONBASE(y,m) + d - 1 + (carried days) */
fields n_mon(year_t y, diff_t m, diff_t d, diff_t cd, hour_t hh, minute_t mm, second_t ss)
__CPROVER_requires(NMON_PRE(y, m, d, (Z)cd))
__CPROVER_ensures(RV.hh == hh && RV.mm == mm && RV.ss == ss)
__CPROVER_ensures(RVVALID)
__CPROVER_ensures(RVDAY == MONBASE(y, m) + (Z)d - 1 + (Z)cd)
__CPROVER_ensures((1 <= m && m <= 12 && cd == 0 && 1 <= d && d <= 28) ? (RV.y == y && RV.m == m && RV.d == d) : 1)
/* any month count: with nothing to carry out of the day, the result is the carried year / month with the day kept (used by step_month) */
__CPROVER_ensures((cd == 0 && 1 <= d && d <= 28) ? ((Z)RV.y == NMON_Y1(y, m) && (int)RV.m == NMON_M1(m) && RV.d == d) : 1)
__CPROVER_assigns();

#define CARRYB ((diff_t)1 << 61)
fields n_hour(year_t y, diff_t m, diff_t d, diff_t cd, diff_t hh, minute_t mm, second_t ss)
__CPROVER_requires(-CARRYB <= cd && cd <= CARRYB)
__CPROVER_requires(NMON_PRE(y, m, d, (Z)cd + FD24((Z)hh)))
__CPROVER_ensures(RV.hh == FM24((Z)hh) && RV.mm == mm && RV.ss == ss)
__CPROVER_ensures(RVVALID)
__CPROVER_ensures(RVDAY == MONBASE(y, m) + (Z)d - 1 + (Z)cd + FD24((Z)hh))
__CPROVER_ensures((1 <= m && m <= 12 && cd == 0 && 1 <= d && d <= 28 && 0 <= hh && hh < 24) ? (RV.y == y && RV.m == m && RV.d == d) : 1)
__CPROVER_assigns();

/* total hours carried into the day count by n_min: hh + ch + floor(mm/60) */
#define NMIN_H(hh, ch, mm) ((Z)(hh) + (Z)(ch) + FD60((Z)(mm)))
fields n_min(year_t y, diff_t m, diff_t d, diff_t hh, diff_t ch, diff_t mm, second_t ss)
__CPROVER_requires(-CARRYB <= ch && ch <= CARRYB)
__CPROVER_requires(NMON_PRE(y, m, d, FD24(NMIN_H(hh, ch, mm))))
__CPROVER_ensures(RV.hh == FM24(NMIN_H(hh, ch, mm)) && RV.mm == FM60((Z)mm) && RV.ss == ss)
__CPROVER_ensures(RVVALID)
__CPROVER_ensures(RVDAY == MONBASE(y, m) + (Z)d - 1 + FD24(NMIN_H(hh, ch, mm)))
__CPROVER_ensures((1 <= m && m <= 12 && ch == 0 && 1 <= d && d <= 28 && 0 <= hh && hh < 24 && 0 <= mm && mm < 60) ? (RV.y == y && RV.m == m && RV.d == d) : 1)
__CPROVER_assigns();

/* n_sec: the whole carry chain.  Total minutes M = mm + floor(ss/60), total hours H = hh + floor(M/60) */
#define NSEC_M(mm, ss) ((Z)(mm) + FD60((Z)(ss)))
#define NSEC_H(hh, mm, ss) ((Z)(hh) + FD60(NSEC_M(mm, ss)))
#define NSEC_CD(hh, mm, ss) FD24(NSEC_H(hh, mm, ss))
#define NSEC_ALREADY(m, d, hh, mm, ss) (1 <= (m) && (m) <= 12 && 1 <= (d) && (d) <= 28 && 0 <= (hh) && (hh) < 24 && 0 <= (mm) && (mm) < 60 && 0 <= (ss) && (ss) < 60)
fields n_sec(year_t y, diff_t m, diff_t d, diff_t hh, diff_t mm, diff_t ss)
__CPROVER_requires(NMON_PRE(y, m, d, NSEC_CD(hh, mm, ss)))
__CPROVER_ensures(RV.ss == FM60((Z)ss) && RV.mm == FM60(NSEC_M(mm, ss)) && RV.hh == FM24(NSEC_H(hh, mm, ss)))
__CPROVER_ensures(RVVALID)
__CPROVER_ensures(RVDAY == MONBASE(y, m) + (Z)d - 1 + NSEC_CD(hh, mm, ss))
__CPROVER_ensures(NSEC_ALREADY(m, d, hh, mm, ss) ? (RV.y == y && RV.m == m && RV.d == d) : 1)
__CPROVER_assigns();

/* alignment: fields below the unit are reset to their minimum, fields above are untouched */
fields align_second(fields f) __CPROVER_ensures(FIELDS_EQ(RV, f)) __CPROVER_assigns();
fields align_minute(fields f) __CPROVER_ensures(RV.y == f.y && RV.m == f.m && RV.d == f.d && RV.hh == f.hh && RV.mm == f.mm && RV.ss == 0) __CPROVER_assigns();
fields align_hour(fields f) __CPROVER_ensures(RV.y == f.y && RV.m == f.m && RV.d == f.d && RV.hh == f.hh && RV.mm == 0 && RV.ss == 0) __CPROVER_assigns();
fields align_day(fields f) __CPROVER_ensures(RV.y == f.y && RV.m == f.m && RV.d == f.d && RV.hh == 0 && RV.mm == 0 && RV.ss == 0) __CPROVER_assigns();
fields align_month(fields f)
__CPROVER_requires(1 <= f.m && f.m <= 12 && 1 <= f.d && f.d <= 31 && VALIDD(f.y, f.m, f.d))
__CPROVER_ensures(RV.y == f.y && RV.m == f.m && RV.d == 1 && RV.hh == 0 && RV.mm == 0 && RV.ss == 0)
__CPROVER_ensures(DAYORD(RV.y, RV.m, 1) + f.d - 1 == DAYORD(f.y, f.m, f.d) && f.d <= DIM(LEAP(RV.y), RV.m) && VALIDD(RV.y, RV.m, 1) && ZB(DAYORD(RV.y, RV.m, 1), 80))
__CPROVER_assigns();
fields align_year(fields f)
__CPROVER_requires(1 <= f.m && f.m <= 12 && 1 <= f.d && f.d <= 31 && VALIDD(f.y, f.m, f.d))
__CPROVER_ensures(RV.y == f.y && RV.m == 1 && RV.d == 1 && RV.hh == 0 && RV.mm == 0 && RV.ss == 0)
__CPROVER_ensures(DAYORD(RV.y, 1, 1) <= DAYORD(f.y, f.m, f.d) && DAYORD(f.y, f.m, f.d) - DAYORD(RV.y, 1, 1) + 1 <= 365 + (LEAP(RV.y) ? 1 : 0) && VALIDD(RV.y, 1, 1) && ZB(DAYORD(RV.y, 1, 1), 80) && ZB(DAYORD(f.y, f.m, f.d), 80))
__CPROVER_assigns();

/* ---- alignment predicates and unit ordinals (C04, C05) ---- */
#define ALIGNED_second(f) (1)
#define ALIGNED_minute(f) ((f).ss == 0)
#define ALIGNED_hour(f) ((f).ss == 0 && (f).mm == 0)
#define ALIGNED_day(f) ((f).ss == 0 && (f).mm == 0 && (f).hh == 0)
#define ALIGNED_month(f) ((f).ss == 0 && (f).mm == 0 && (f).hh == 0 && (f).d == 1)
#define ALIGNED_year(f) ((f).ss == 0 && (f).mm == 0 && (f).hh == 0 && (f).d == 1 && (f).m == 1)
#define UNIT_second(f) SECORD_F(f)
#define UNIT_minute(f) MINORD_F(f)
#define UNIT_hour(f) HOURORD_F(f)
#define UNIT_day(f) DAYORD_F(f)
#define UNIT_month(f) MONORD_F(f)
#define UNIT_year(f) ((Z)(f).y)
/* "the result is representable": the year of the unit ordinal u fits in 64 bits */
#define REPR_second(u) (ORD_MIN <= FD((u), 86400) && FD((u), 86400) <= ORD_MAX)
#define REPR_minute(u) (ORD_MIN <= FD((u), 1440) && FD((u), 1440) <= ORD_MAX)
#define REPR_hour(u) (ORD_MIN <= FD((u), 24) && FD((u), 24) <= ORD_MAX)
#define REPR_day(u) (ORD_MIN <= (u) && (u) <= ORD_MAX)
#define REPR_month(u) (FITS64(FD((u), 12)))
#define REPR_year(u) (FITS64(u))

/* construction from six fields (C04): normalise, then truncate to the alignment.
 * CT_DAY is the day ordinal the normalised value has: MONBASE(y,m) + d - 1 + (days carried out of hh:mm:ss) */
#define CT_DAY(y, m, d, hh, mm, ss) (MONBASE(y, m) + (Z)(d) - 1 + NSEC_CD(hh, mm, ss))
#define CTOR_REQ(y, m, d, hh, mm, ss) __CPROVER_requires(NMON_PRE(y, m, d, NSEC_CD(hh, mm, ss)))
fields ct_second_ctor6(year_t y, diff_t m, diff_t d, diff_t hh, diff_t mm, diff_t ss)
CTOR_REQ(y, m, d, hh, mm, ss)
__CPROVER_ensures(RVVALID && RVDAY == CT_DAY(y, m, d, hh, mm, ss))
__CPROVER_ensures(RV.hh == FM24(NSEC_H(hh, mm, ss)) && RV.mm == FM60(NSEC_M(mm, ss)) && RV.ss == FM60((Z)ss))
__CPROVER_ensures(NSEC_ALREADY(m, d, hh, mm, ss) ? (RV.y == y && RV.m == m && RV.d == d) : 1)
__CPROVER_assigns();
fields ct_minute_ctor6(year_t y, diff_t m, diff_t d, diff_t hh, diff_t mm, diff_t ss)
CTOR_REQ(y, m, d, hh, mm, ss)
__CPROVER_ensures(RVVALID && RVDAY == CT_DAY(y, m, d, hh, mm, ss))
__CPROVER_ensures(RV.hh == FM24(NSEC_H(hh, mm, ss)) && RV.mm == FM60(NSEC_M(mm, ss)) && RV.ss == 0)
__CPROVER_ensures(NSEC_ALREADY(m, d, hh, mm, ss) ? (RV.y == y && RV.m == m && RV.d == d) : 1)
__CPROVER_assigns();
fields ct_hour_ctor6(year_t y, diff_t m, diff_t d, diff_t hh, diff_t mm, diff_t ss)
CTOR_REQ(y, m, d, hh, mm, ss)
__CPROVER_ensures(RVVALID && RVDAY == CT_DAY(y, m, d, hh, mm, ss))
__CPROVER_ensures(RV.hh == FM24(NSEC_H(hh, mm, ss)) && RV.mm == 0 && RV.ss == 0)
__CPROVER_ensures(NSEC_ALREADY(m, d, hh, mm, ss) ? (RV.y == y && RV.m == m && RV.d == d) : 1)
__CPROVER_assigns();
fields ct_day_ctor6(year_t y, diff_t m, diff_t d, diff_t hh, diff_t mm, diff_t ss)
CTOR_REQ(y, m, d, hh, mm, ss)
__CPROVER_ensures(RVVALID && RVDAY == CT_DAY(y, m, d, hh, mm, ss))
__CPROVER_ensures(RV.hh == 0 && RV.mm == 0 && RV.ss == 0)
__CPROVER_ensures(NSEC_ALREADY(m, d, hh, mm, ss) ? (RV.y == y && RV.m == m && RV.d == d) : 1)
__CPROVER_assigns();
/* month / year alignment: the day (and month) are reset; the result is the first day of the month (year) that contains
 * the normalised date, i.e. its day ordinal is the largest first-of-month (first-of-year) ordinal not above CT_DAY */
fields ct_month_ctor6(year_t y, diff_t m, diff_t d, diff_t hh, diff_t mm, diff_t ss)
CTOR_REQ(y, m, d, hh, mm, ss)
__CPROVER_ensures(1 <= RV.m && RV.m <= 12 && RV.d == 1 && RV.hh == 0 && RV.mm == 0 && RV.ss == 0)
__CPROVER_ensures(VALIDD(RV.y, RV.m, 1) && DAYORD(RV.y, RV.m, 1) <= CT_DAY(y, m, d, hh, mm, ss) && CT_DAY(y, m, d, hh, mm, ss) - DAYORD(RV.y, RV.m, 1) + 1 <= DIM(LEAP(RV.y), RV.m))
__CPROVER_ensures(NSEC_ALREADY(m, d, hh, mm, ss) ? (RV.y == y && RV.m == m) : 1)
__CPROVER_assigns();
fields ct_year_ctor6(year_t y, diff_t m, diff_t d, diff_t hh, diff_t mm, diff_t ss)
CTOR_REQ(y, m, d, hh, mm, ss)
__CPROVER_ensures(RV.m == 1 && RV.d == 1 && RV.hh == 0 && RV.mm == 0 && RV.ss == 0)
__CPROVER_ensures(VALIDD(RV.y, 1, 1) && DAYORD(RV.y, 1, 1) <= CT_DAY(y, m, d, hh, mm, ss) && CT_DAY(y, m, d, hh, mm, ss) - DAYORD(RV.y, 1, 1) + 1 <= 365 + (LEAP(RV.y) ? 1 : 0))
__CPROVER_ensures(NSEC_ALREADY(m, d, hh, mm, ss) ? (RV.y == y) : 1)
__CPROVER_assigns();

/* ---- C05: step, difference, operators ----
 * stated over the opaque day ordinal DAYORD and the opaque floor operations FD24/FD60 */
#define OVALIDD(f) (1 <= (f).m && (f).m <= 12 && 1 <= (f).d && (f).d <= 31 && VALIDD((f).y, (f).m, (f).d))
#define OVALID(f) (OVALIDD(f) && VALID_HMS((f).hh, (f).mm, (f).ss))
#define ODAY(f) DAYORD((f).y, (f).m, (f).d)
#define OHOUR(f) (ODAY(f) * 24 + (f).hh)
#define OMIN(f) (OHOUR(f) * 60 + (f).mm)
#define OSEC_DEF(f) (OMIN(f) * 60 + (f).ss)
#ifdef OSEC_OPAQUE
/* Units that only relate second ordinals to each other (the zone kernel) take the second ordinal of a civil second as an
 * opaque symbol: every contract mentioning OSEC was proved for its definition OSEC_DEF, so it holds for the symbol's intended
 * reading, and obligations proved for an arbitrary symbol hold for that reading in particular. */
Z __CPROVER_uninterpreted_osec(year_t y, int m, int d, int hh, int mm, int ss);
#define OSEC(f) __CPROVER_uninterpreted_osec((f).y, (f).m, (f).d, (f).hh, (f).mm, (f).ss)
#define REVEAL_OSEC(f) __CPROVER_assume(OSEC(f) == OSEC_DEF(f))
#else
#define OSEC(f) OSEC_DEF(f)
#define REVEAL_OSEC(f)
#endif
#define REPRDAY(u) (ORD_MIN <= (u) && (u) <= ORD_MAX)
#undef REPR_second
#undef REPR_minute
#undef REPR_hour
#undef REPR_day
#define REPR_second(u) REPRDAY(FD24(FD60(FD60(u))))
#define REPR_minute(u) REPRDAY(FD24(FD60(u)))
#define REPR_hour(u) REPRDAY(FD24(u))
#define REPR_day(u) REPRDAY(u)
#undef UNIT_second
#undef UNIT_minute
#undef UNIT_hour
#undef UNIT_day
#define UNIT_second(f) OSEC(f)
#define UNIT_minute(f) OMIN(f)
#define UNIT_hour(f) OHOUR(f)
#define UNIT_day(f) ODAY(f)
/* facts used by the proofs of this section (each proved with the definitions revealed) */
/* a valid date is counted from its month base */
#define lemma_validday_REQ(y, m, d) (1 <= (m) && (m) <= 12 && 1 <= (d) && (d) <= 31 && VALIDD(y, m, d))
#define lemma_validday_ENS(y, m, d) (DAYORD(y, m, d) == MONBASE(y, (diff_t)(m)) + (Z)(d) - 1)
/* a month base plus a day count within the ordinal range satisfies the constructor's representability bound */
#define lemma_nmonpre_REQ(y, m, d, cd) (1 <= (m) && (m) <= 12 && ZB(cd, 100) && REPRDAY(MONBASE(y, (diff_t)(m)) + (Z)(d) - 1 + (Z)(cd)))
#define lemma_nmonpre_ENS(y, m, d, cd) (NMON_PRE(y, (diff_t)(m), d, cd))
/* floor operations on sums with an exact multiple */
#define lemma_dm_lin_REQ(a, b) (ZB(a, 100) && ZB(b, 100))
#define lemma_dm_lin_ENS(a, b) (FD60(60 * (Z)(a) + (Z)(b)) == (Z)(a) + FD60((Z)(b)) && FM60(60 * (Z)(a) + (Z)(b)) == FM60((Z)(b)) && \
                                FD24(24 * (Z)(a) + (Z)(b)) == (Z)(a) + FD24((Z)(b)) && FM24(24 * (Z)(a) + (Z)(b)) == FM24((Z)(b)))
/* the floor operations are monotone */
#define lemma_dm_mono_REQ(a, b) (ZB(a, 100) && ZB(b, 100) && (Z)(a) <= (Z)(b))
#define lemma_dm_mono_ENS(a, b) (FD60(a) <= FD60(b) && FD24(a) <= FD24(b) && ZB(FD60(a), 100) && ZB(FD24(a), 100) && ZB(FD60(b), 100) && ZB(FD24(b), 100))
/* a valid date with a 64-bit year lies inside the representable ordinal range */
#define lemma_validrepr_REQ(y, m, d) (1 <= (m) && (m) <= 12 && 1 <= (d) && (d) <= 31 && VALIDD(y, m, d))
#define lemma_validrepr_ENS(y, m, d) (REPRDAY(DAYORD(y, m, d)))
/* later years start at least 365 days later */
#define lemma_ordy_mono_REQ(a, b) (ZB(a, 66) && ZB(b, 66) && (Z)(a) < (Z)(b))
#define lemma_ordy_mono_ENS(a, b) (ORDY(a) + 365 <= ORDY(b))
/* on valid dates the day ordinal orders exactly like (year, month, day); hence it is injective */
#define LEX3LT(y1, m1, d1, y2, m2, d2) ((y1) < (y2) || ((y1) == (y2) && ((m1) < (m2) || ((m1) == (m2) && (d1) < (d2)))))
#define lemma_dayord_lex_REQ(y1, m1, d1, y2, m2, d2) (1 <= (m1) && (m1) <= 12 && 1 <= (d1) && (d1) <= 31 && VALIDD(y1, m1, d1) && 1 <= (m2) && (m2) <= 12 && 1 <= (d2) && (d2) <= 31 && VALIDD(y2, m2, d2))
#define lemma_dayord_lex_ENS(y1, m1, d1, y2, m2, d2) ((LEX3LT(y1, m1, d1, y2, m2, d2) ? 1 : 0) == (DAYORD(y1, m1, d1) < DAYORD(y2, m2, d2) ? 1 : 0) && \
                                                       (((y1) == (y2) && (m1) == (m2) && (d1) == (d2)) ? 1 : 0) == (DAYORD(y1, m1, d1) == DAYORD(y2, m2, d2) ? 1 : 0))
/* n == 60*(n/60) + n%60 etc. for the truncating operators */
#define lemma_trunc_REQ(n) (1)
#define lemma_trunc_ENS(n) ((Z)(n) == 60 * (Z)((n) / 60) + (n) % 60 && (Z)(n) == 24 * (Z)((n) / 24) + (n) % 24 && (Z)(n) == 12 * (Z)((n) / 12) + (n) % 12 && \
                            -60 < (n) % 60 && (n) % 60 < 60 && -24 < (n) % 24 && (n) % 24 < 24 && -12 < (n) % 12 && (n) % 12 < 12)

/* stepping by n months: the code's split n/12, n%12 cannot overflow the year, and carrying the month sum back into the year
 * moves the month ordinal by exactly n */
#define SM_Y(y, n) ((Z)(y) + (Z)((n) / 12))
#define SM_M(m, n) ((Z)(m) + (Z)((n) % 12))
#define lemma_stepmon_REQ(y, m, n) (1 <= (m) && (m) <= 12 && FITS64(FD((Z)12 * (y) + (m) - 1 + (Z)(n), 12)))
#define lemma_stepmon_ENS(y, m, n) (FITS64(SM_Y(y, n)) && FITS64(SM_Y(y, n) + FD(SM_M(m, n) - 1, 12)) && \
  (Z)12 * (SM_Y(y, n) + FD(SM_M(m, n) - 1, 12)) + FM(SM_M(m, n) - 1, 12) == (Z)12 * (y) + (m) - 1 + (Z)(n))
/* the floor quotient by 12 is monotone */
#define lemma_fd12_mono_REQ(a, b) (ZB(a, 100) && ZB(b, 100) && (Z)(a) <= (Z)(b))
#define lemma_fd12_mono_ENS(a, b) (FD(a, 12) <= FD(b, 12))
/* the month ordinal determines year and month */
#define lemma_monord_inj_REQ(a, b) (1 <= (a).m && (a).m <= 12 && 1 <= (b).m && (b).m <= 12 && MONORD_F(a) == MONORD_F(b))
#define lemma_monord_inj_ENS(a, b) ((a).y == (b).y && (a).m == (b).m)
/* the representability bound of n_mon depends on (y, m) only through the carried year and month */
#define lemma_nmonpre_carry_REQ(y, m, d, cd) (FITS64(NMON_Y1(y, m)) && NMON_PRE((year_t)NMON_Y1(y, m), (diff_t)(NMON_M1(m)), d, cd))
#define lemma_nmonpre_carry_ENS(y, m, d, cd) (NMON_PRE(y, m, d, cd))

fields step_second(fields f, diff_t n)
__CPROVER_requires(OVALID(f) && REPR_second(OSEC(f) + n))
__CPROVER_ensures(OVALID(RV) && OSEC(RV) == OSEC(f) + n)
__CPROVER_assigns();
fields step_minute(fields f, diff_t n)
__CPROVER_requires(OVALID(f) && REPR_minute(OMIN(f) + n))
__CPROVER_ensures(OVALID(RV) && OMIN(RV) == OMIN(f) + n && RV.ss == f.ss)
__CPROVER_assigns();
fields step_hour(fields f, diff_t n)
__CPROVER_requires(OVALID(f) && REPR_hour(OHOUR(f) + n))
__CPROVER_ensures(OVALID(RV) && OHOUR(RV) == OHOUR(f) + n && RV.mm == f.mm && RV.ss == f.ss)
__CPROVER_assigns();
fields step_day(fields f, diff_t n)
__CPROVER_requires(OVALID(f) && REPR_day(ODAY(f) + n))
__CPROVER_ensures(OVALID(RV) && ODAY(RV) == ODAY(f) + n && RV.hh == f.hh && RV.mm == f.mm && RV.ss == f.ss)
__CPROVER_assigns();
fields step_month(fields f, diff_t n)
__CPROVER_requires(OVALID(f) && f.d <= 28 && REPR_month(MONORD_F(f) + n))
__CPROVER_ensures(OVALID(RV) && MONORD_F(RV) == MONORD_F(f) + n && RV.d == f.d && RV.hh == f.hh && RV.mm == f.mm && RV.ss == f.ss)
__CPROVER_assigns();
fields step_year(fields f, diff_t n)
__CPROVER_requires(OVALID(f) && f.d <= 28 && REPR_year((Z)f.y + n))
__CPROVER_ensures(OVALID(RV) && (Z)RV.y == (Z)f.y + n && RV.m == f.m && RV.d == f.d && RV.hh == f.hh && RV.mm == f.mm && RV.ss == f.ss)
__CPROVER_assigns();

diff_t scale_add(diff_t v, diff_t f, diff_t a)
#define SA_MUL(v, f) ((f) == 24 ? MUL24((Z)(v)) : ((f) == 60 ? MUL60((Z)(v)) : (Z)(v) * 12))
__CPROVER_requires((f == 12 || f == 24 || f == 60) && -f < a && a < f && FITS64(SA_MUL(v, f) + a))
__CPROVER_ensures((Z)RV == SA_MUL(v, f) + a)
__CPROVER_assigns();

/* two arithmetic facts used by day_difference, over free variables (no division by a symbolic value inside the function's own queries) */
#define lemma_c4_REQ(y1, a, y2, b, qa, qb) (((y1) >= 0 ? (a) >= 0 : (a) <= 0) && ((y2) >= 0 ? (b) >= 0 : (b) <= 0) && (Z)(y1) - (Z)(a) == (Z)400 * (Z)(qa) && (Z)(y2) - (Z)(b) == (Z)400 * (Z)(qb) && -400 < (a) && (a) < 400 && -400 < (b) && (b) < 400 && \
  -((Z)1 << 62) < (Z)400 * ((Z)(qa) - (Z)(qb)) && (Z)400 * ((Z)(qa) - (Z)(qb)) < ((Z)1 << 62))
#define lemma_c4_ENS(y1, a, y2, b, qa, qb) (FITS64((Z)(y1) - (Z)(a)) && FITS64((Z)(y2) - (Z)(b)) && (Z)(diff_t)(((y1) - (a)) - ((y2) - (b))) == (Z)400 * ((Z)(qa) - (Z)(qb)))
#define lemma_dd3_REQ(qd, od) (FITS64((Z)146097 * (Z)(qd) + (Z)(od)) && -292194 < (Z)(od) && (Z)(od) < 292194 && ZB(qd, 66))
#define lemma_dd3_ENS(qd, od) (-((Z)1 << 62) < (Z)400 * (Z)(qd) && (Z)400 * (Z)(qd) < ((Z)1 << 62))
#define lemma_dist400_REQ(x, y) (ZB(x, 66) && ZB(y, 66))
#define lemma_dist400_ENS(x, y) ((Z)400 * ((Z)(x) - (Z)(y)) == (Z)400 * (Z)(x) - (Z)400 * (Z)(y))
#define lemma_q400_REQ(x, k) ((Z)(x) == (Z)400 * (Z)(k) && ZB(k, 60))
#define lemma_q400_ENS(x, k) ((Z)((x) / 400) == (Z)(k) && (x) % 400 == 0)
/* day_difference: the ordinal distance of two valid dates = 146097 per 400-year cycle between them + the distance of their positions inside
 * the cycle window (opaque ORDI of year % 400), which is less than two cycles; and a representable distance keeps the cycle count small */
#define DD_E(y) ((int)((y) % 400))
#define lemma_dd_REQ(y1, m1, d1, y2, m2, d2) (1 <= (m1) && (m1) <= 12 && 1 <= (d1) && (d1) <= 31 && 1 <= (m2) && (m2) <= 12 && 1 <= (d2) && (d2) <= 31 && \
  FITS64(DAYORD(y1, m1, d1) - DAYORD(y2, m2, d2)))
#define lemma_dd_ENS(y1, m1, d1, y2, m2, d2) ( \
  DAYORD(y1, m1, d1) - DAYORD(y2, m2, d2) == (Z)146097 * ((Z)((y1) / 400) - (Z)((y2) / 400)) + (Z)ORDI(DD_E(y1), m1, d1) - (Z)ORDI(DD_E(y2), m2, d2) && \
  -292194 < (Z)ORDI(DD_E(y1), m1, d1) - (Z)ORDI(DD_E(y2), m2, d2) && (Z)ORDI(DD_E(y1), m1, d1) - (Z)ORDI(DD_E(y2), m2, d2) < 292194 && \
  -((Z)1 << 62) < (Z)400 * ((Z)((y1) / 400) - (Z)((y2) / 400)) && (Z)400 * ((Z)((y1) / 400) - (Z)((y2) / 400)) < ((Z)1 << 62))
diff_t ymd_ord(year_t y, month_t m, day_t d)
__CPROVER_requires(-400 < y && y < 400 && 1 <= m && m <= 12 && 1 <= d && d <= 31)
__CPROVER_ensures((Z)RV == (Z)ORDI((int)y, m, d) - 719528)
__CPROVER_assigns();

diff_t day_difference(year_t y1, month_t m1, day_t d1, year_t y2, month_t m2, day_t d2)
__CPROVER_requires(1 <= m1 && m1 <= 12 && 1 <= d1 && d1 <= 31 && 1 <= m2 && m2 <= 12 && 1 <= d2 && d2 <= 31)
__CPROVER_requires(VALIDD(y1, m1, d1) && VALIDD(y2, m2, d2) && FITS64(DAYORD(y1, m1, d1) - DAYORD(y2, m2, d2)))
__CPROVER_ensures((Z)RV == DAYORD(y1, m1, d1) - DAYORD(y2, m2, d2))
__CPROVER_assigns();

/* unit differences, built up exactly as the units are nested (so each level adds one multiply-add);
 * that UDIFF_x(a,b) == UNIT_x(a) - UNIT_x(b) is the code-free identity lemma_udiff */
#define UDIFF_day(f1, f2) (ODAY(f1) - ODAY(f2))
#define UDIFF_hour(f1, f2) (MUL24(UDIFF_day(f1, f2)) + ((Z)(f1).hh - (Z)(f2).hh))
#define UDIFF_minute(f1, f2) (MUL60(UDIFF_hour(f1, f2)) + ((Z)(f1).mm - (Z)(f2).mm))
#define UDIFF_second(f1, f2) (MUL60(UDIFF_minute(f1, f2)) + ((Z)(f1).ss - (Z)(f2).ss))
/* x24, x60a, x60b stand for the three products (at a use they are the opaque MUL terms, revealed first) */
#define lemma_udiff_REQ(A, B, h1, h2, m1, m2, s1, s2, x24, x60a, x60b) \
  (ZB(A, 100) && ZB(B, 100) && (x24) == ((Z)(A) - (Z)(B)) * 24 && (x60a) == ((x24) + ((Z)(h1) - (Z)(h2))) * 60 && \
   (x60b) == ((x60a) + ((Z)(m1) - (Z)(m2))) * 60)
#define lemma_udiff_ENS(A, B, h1, h2, m1, m2, s1, s2, x24, x60a, x60b) \
  ((x24) + ((Z)(h1) - (Z)(h2)) == ((Z)(A) * 24 + (h1)) - ((Z)(B) * 24 + (h2)) && \
   (x60a) + ((Z)(m1) - (Z)(m2)) == (((Z)(A) * 24 + (h1)) * 60 + (m1)) - (((Z)(B) * 24 + (h2)) * 60 + (m2)) && \
   (x60b) + ((Z)(s1) - (Z)(s2)) == ((((Z)(A) * 24 + (h1)) * 60 + (m1)) * 60 + (s1)) - ((((Z)(B) * 24 + (h2)) * 60 + (m2)) * 60 + (s2)))
#define USE_UDIFF(f1, f2) do { REVEAL_MUL(UDIFF_day(f1, f2)); REVEAL_MUL(UDIFF_hour(f1, f2)); REVEAL_MUL(UDIFF_minute(f1, f2)); \
  USE(lemma_udiff_REQ(ODAY(f1), ODAY(f2), (f1).hh, (f2).hh, (f1).mm, (f2).mm, (f1).ss, (f2).ss, MUL24(UDIFF_day(f1, f2)), MUL60(UDIFF_hour(f1, f2)), MUL60(UDIFF_minute(f1, f2))), \
      lemma_udiff_ENS(ODAY(f1), ODAY(f2), (f1).hh, (f2).hh, (f1).mm, (f2).mm, (f1).ss, (f2).ss, MUL24(UDIFF_day(f1, f2)), MUL60(UDIFF_hour(f1, f2)), MUL60(UDIFF_minute(f1, f2))), "udiff"); } while (0)
/* a bounded multiply-add that fits 64 bits has a multiplicand that fits 64 bits */
#define lemma_fits_REQ(u, a, f) (ZB(u, 100) && ((f) == 24 || (f) == 60) && -(f) < (a) && (a) < (f) && FITS64(((f) == 24 ? MUL24(u) : MUL60(u)) + (a)))
#define lemma_fits_ENS(u, a, f) (FITS64((Z)(u)))

diff_t difference_year(fields f1, fields f2)
__CPROVER_requires(FITS64((Z)f1.y - (Z)f2.y))
__CPROVER_ensures((Z)RV == (Z)f1.y - (Z)f2.y)
__CPROVER_assigns();
diff_t difference_month(fields f1, fields f2)
__CPROVER_requires(1 <= f1.m && f1.m <= 12 && 1 <= f2.m && f2.m <= 12 && FITS64(MONORD_F(f1) - MONORD_F(f2)))
__CPROVER_ensures((Z)RV == MONORD_F(f1) - MONORD_F(f2))
__CPROVER_assigns();
diff_t difference_day(fields f1, fields f2)
__CPROVER_requires(OVALIDD(f1) && OVALIDD(f2) && FITS64(ODAY(f1) - ODAY(f2)))
__CPROVER_ensures((Z)RV == ODAY(f1) - ODAY(f2))
__CPROVER_assigns();
diff_t difference_hour(fields f1, fields f2)
__CPROVER_requires(OVALID(f1) && OVALID(f2) && FITS64(UDIFF_hour(f1, f2)))
__CPROVER_ensures((Z)RV == UDIFF_hour(f1, f2))
__CPROVER_assigns();
diff_t difference_minute(fields f1, fields f2)
__CPROVER_requires(OVALID(f1) && OVALID(f2) && FITS64(UDIFF_minute(f1, f2)))
__CPROVER_ensures((Z)RV == UDIFF_minute(f1, f2))
__CPROVER_assigns();
diff_t difference_second(fields f1, fields f2)
__CPROVER_requires(OVALID(f1) && OVALID(f2) && FITS64(UDIFF_second(f1, f2)))
__CPROVER_ensures((Z)RV == UDIFF_second(f1, f2))
__CPROVER_assigns();

fields ct_second_plus(fields a, diff_t n)
__CPROVER_requires(OVALID(a) && ALIGNED_second(a) && REPR_second(UNIT_second(a) + n))
__CPROVER_ensures(OVALID(RV) && ALIGNED_second(RV) && UNIT_second(RV) == UNIT_second(a) + n)
__CPROVER_assigns();
fields ct_second_minus(fields a, diff_t n)
__CPROVER_requires(OVALID(a) && ALIGNED_second(a) && REPR_second(UNIT_second(a) - n))
__CPROVER_ensures(OVALID(RV) && ALIGNED_second(RV))
__CPROVER_ensures(UNIT_second(RV) == UNIT_second(a) - n)
__CPROVER_assigns();
diff_t ct_second_diff(fields lhs, fields rhs)
__CPROVER_requires(OVALID(lhs) && ALIGNED_second(lhs) && OVALID(rhs) && ALIGNED_second(rhs) && FITS64(UNIT_second(lhs) - UNIT_second(rhs)))
__CPROVER_ensures((Z)RV == UNIT_second(lhs) - UNIT_second(rhs))
__CPROVER_assigns();

fields ct_minute_plus(fields a, diff_t n)
__CPROVER_requires(OVALID(a) && ALIGNED_minute(a) && REPR_minute(UNIT_minute(a) + n))
__CPROVER_ensures(OVALID(RV) && ALIGNED_minute(RV) && UNIT_minute(RV) == UNIT_minute(a) + n)
__CPROVER_assigns();
fields ct_minute_minus(fields a, diff_t n)
__CPROVER_requires(OVALID(a) && ALIGNED_minute(a) && REPR_minute(UNIT_minute(a) - n))
__CPROVER_ensures(OVALID(RV) && ALIGNED_minute(RV) && UNIT_minute(RV) == UNIT_minute(a) - n)
__CPROVER_assigns();
diff_t ct_minute_diff(fields lhs, fields rhs)
__CPROVER_requires(OVALID(lhs) && ALIGNED_minute(lhs) && OVALID(rhs) && ALIGNED_minute(rhs) && FITS64(UNIT_minute(lhs) - UNIT_minute(rhs)))
__CPROVER_ensures((Z)RV == UNIT_minute(lhs) - UNIT_minute(rhs))
__CPROVER_assigns();

fields ct_hour_plus(fields a, diff_t n)
__CPROVER_requires(OVALID(a) && ALIGNED_hour(a) && REPR_hour(UNIT_hour(a) + n))
__CPROVER_ensures(OVALID(RV) && ALIGNED_hour(RV) && UNIT_hour(RV) == UNIT_hour(a) + n)
__CPROVER_assigns();
fields ct_hour_minus(fields a, diff_t n)
__CPROVER_requires(OVALID(a) && ALIGNED_hour(a) && REPR_hour(UNIT_hour(a) - n))
__CPROVER_ensures(OVALID(RV) && ALIGNED_hour(RV) && UNIT_hour(RV) == UNIT_hour(a) - n)
__CPROVER_assigns();
diff_t ct_hour_diff(fields lhs, fields rhs)
__CPROVER_requires(OVALID(lhs) && ALIGNED_hour(lhs) && OVALID(rhs) && ALIGNED_hour(rhs) && FITS64(UNIT_hour(lhs) - UNIT_hour(rhs)))
__CPROVER_ensures((Z)RV == UNIT_hour(lhs) - UNIT_hour(rhs))
__CPROVER_assigns();

fields ct_day_plus(fields a, diff_t n)
__CPROVER_requires(OVALID(a) && ALIGNED_day(a) && REPR_day(UNIT_day(a) + n))
__CPROVER_ensures(OVALID(RV) && ALIGNED_day(RV) && UNIT_day(RV) == UNIT_day(a) + n)
__CPROVER_assigns();
fields ct_day_minus(fields a, diff_t n)
__CPROVER_requires(OVALID(a) && ALIGNED_day(a) && REPR_day(UNIT_day(a) - n))
__CPROVER_ensures(OVALID(RV) && ALIGNED_day(RV) && UNIT_day(RV) == UNIT_day(a) - n)
__CPROVER_assigns();
diff_t ct_day_diff(fields lhs, fields rhs)
__CPROVER_requires(OVALID(lhs) && ALIGNED_day(lhs) && OVALID(rhs) && ALIGNED_day(rhs) && FITS64(UNIT_day(lhs) - UNIT_day(rhs)))
__CPROVER_ensures((Z)RV == UNIT_day(lhs) - UNIT_day(rhs))
__CPROVER_assigns();

fields ct_month_plus(fields a, diff_t n)
__CPROVER_requires(OVALID(a) && ALIGNED_month(a) && REPR_month(UNIT_month(a) + n))
__CPROVER_ensures(OVALID(RV) && ALIGNED_month(RV) && UNIT_month(RV) == UNIT_month(a) + n)
__CPROVER_assigns();
fields ct_month_minus(fields a, diff_t n)
__CPROVER_requires(OVALID(a) && ALIGNED_month(a) && REPR_month(UNIT_month(a) - n))
__CPROVER_ensures(OVALID(RV) && ALIGNED_month(RV) && UNIT_month(RV) == UNIT_month(a) - n)
__CPROVER_assigns();
diff_t ct_month_diff(fields lhs, fields rhs)
__CPROVER_requires(OVALID(lhs) && ALIGNED_month(lhs) && OVALID(rhs) && ALIGNED_month(rhs) && FITS64(UNIT_month(lhs) - UNIT_month(rhs)))
__CPROVER_ensures((Z)RV == UNIT_month(lhs) - UNIT_month(rhs))
__CPROVER_assigns();

fields ct_year_plus(fields a, diff_t n)
__CPROVER_requires(OVALID(a) && ALIGNED_year(a) && REPR_year(UNIT_year(a) + n))
__CPROVER_ensures(OVALID(RV) && ALIGNED_year(RV) && UNIT_year(RV) == UNIT_year(a) + n)
__CPROVER_assigns();
fields ct_year_minus(fields a, diff_t n)
__CPROVER_requires(OVALID(a) && ALIGNED_year(a) && REPR_year(UNIT_year(a) - n))
__CPROVER_ensures(OVALID(RV) && ALIGNED_year(RV) && UNIT_year(RV) == UNIT_year(a) - n)
__CPROVER_assigns();
diff_t ct_year_diff(fields lhs, fields rhs)
__CPROVER_requires(OVALID(lhs) && ALIGNED_year(lhs) && OVALID(rhs) && ALIGNED_year(rhs) && FITS64(UNIT_year(lhs) - UNIT_year(rhs)))
__CPROVER_ensures((Z)RV == UNIT_year(lhs) - UNIT_year(rhs))
__CPROVER_assigns();

/* relational operators: lexicographic order on the six fields (works across alignments) */
#define LEXLT(a, b) ((a).y < (b).y || ((a).y == (b).y && ((a).m < (b).m || ((a).m == (b).m && ((a).d < (b).d || ((a).d == (b).d && \
                     ((a).hh < (b).hh || ((a).hh == (b).hh && ((a).mm < (b).mm || ((a).mm == (b).mm && (a).ss < (b).ss))))))))))
bool ct_lt(fields lhs, fields rhs) __CPROVER_ensures(RV == (LEXLT(lhs, rhs) ? 1 : 0)) __CPROVER_assigns();
bool ct_le(fields lhs, fields rhs) __CPROVER_ensures(RV == (LEXLT(rhs, lhs) ? 0 : 1)) __CPROVER_assigns();
bool ct_gt(fields lhs, fields rhs) __CPROVER_ensures(RV == (LEXLT(rhs, lhs) ? 1 : 0)) __CPROVER_assigns();
bool ct_ge(fields lhs, fields rhs) __CPROVER_ensures(RV == (LEXLT(lhs, rhs) ? 0 : 1)) __CPROVER_assigns();
bool ct_eq(fields lhs, fields rhs) __CPROVER_ensures(RV == (FIELDS_EQ(lhs, rhs) ? 1 : 0)) __CPROVER_assigns();
bool ct_ne(fields lhs, fields rhs) __CPROVER_ensures(RV == (FIELDS_EQ(lhs, rhs) ? 0 : 1)) __CPROVER_assigns();

/* ---- C17: weekday, day of year, next/prev weekday ---- */
/* weekday number (0 = Monday) of a day ordinal, as an opaque symbol; 1970-01-01 (ordinal 719528) is a Thursday (3) */
int __CPROVER_uninterpreted_wday(Z ord);
#define WDAY(ord) __CPROVER_uninterpreted_wday(ord)
#define REVEAL_WDAY(ord) __CPROVER_assume((Z)WDAY(ord) == WD(ord))
/* reduction of an ordinal to the 400-year cycle */
#define lemma_ord_reduce_REQ(y, m, d) (1 <= (m) && (m) <= 12 && 1 <= (d) && (d) <= 31)
#define lemma_ord_reduce_ENS(y, m, d) (ORD(y, m, d) == ORD((Z)((y) % 400), m, d) + (Z)146097 * (Z)((y) / 400) && \
                                       (LEAP((Z)(y)) ? 1 : 0) == (LEAP((Z)((y) % 400)) ? 1 : 0) && -400 < (y) % 400 && (y) % 400 < 400)
/* 146097 days are exactly 20871 weeks */
#define lemma_fd7shift_REQ(x, k, c) (ZB(x, 100) && ZB(k, 60) && ZB(c, 30))
#define lemma_fd7shift_ENS(x, k, c) (FD((Z)((x) + (Z)146097 * (k)) + (c), 7) == FD((Z)(x) + (c), 7) + 20871 * (k))
#define lemma_wd_period_REQ(x, k) (ZB(x, 100) && ZB(k, 60))
#define lemma_wd_period_ENS(x, k) (WD((x) + (Z)146097 * (k)) == WD(x))
#define lemma_wd_cong_REQ(a, b) ((Z)(a) == (Z)(b))
#define lemma_wd_cong_ENS(a, b) (WD(a) == WD(b))
/* moving c days moves the weekday by c (0 <= c <= 13); stated on the opaque symbol */
#define lemma_wd_add_REQ(x, c) (ZB(x, 100) && 0 <= (c) && (c) <= 13)
#define lemma_wd_add_ENS(x, c) (WDAY((Z)(x) + (c)) == FM(WDAY(x) + (c), 7) && WDAY((Z)(x) - (c)) == FM(WDAY(x) - (c), 7) && 0 <= WDAY(x) && WDAY(x) <= 6)

weekday get_weekday(fields cs)
__CPROVER_requires(OVALID(cs))
__CPROVER_ensures((int)RV == WDAY(ODAY(cs)))
__CPROVER_ensures(0 <= (int)RV && (int)RV <= 6)
__CPROVER_assigns();

int get_yearday(fields cs)
__CPROVER_requires(OVALID(cs))
__CPROVER_ensures((Z)RV == ODAY(cs) - DAYORD(cs.y, 1, 1) + 1)
__CPROVER_ensures(1 <= RV && RV <= 365 + (LEAP(cs.y) ? 1 : 0))
__CPROVER_assigns();

fields next_weekday(fields cd, weekday wd)
__CPROVER_requires(OVALID(cd) && ALIGNED_day(cd) && 0 <= (int)wd && (int)wd <= 6 && REPR_day(ODAY(cd) + 7))
__CPROVER_ensures(OVALID(RV) && ALIGNED_day(RV))
__CPROVER_ensures(1 <= ODAY(RV) - ODAY(cd) && ODAY(RV) - ODAY(cd) <= 7)
__CPROVER_ensures(WDAY(ODAY(RV)) == (int)wd)
__CPROVER_assigns();

fields prev_weekday(fields cd, weekday wd)
__CPROVER_requires(OVALID(cd) && ALIGNED_day(cd) && 0 <= (int)wd && (int)wd <= 6 && REPR_day(ODAY(cd) - 7))
__CPROVER_ensures(OVALID(RV) && ALIGNED_day(RV))
__CPROVER_ensures(1 <= ODAY(cd) - ODAY(RV) && ODAY(cd) - ODAY(RV) <= 7)
__CPROVER_ensures(WDAY(ODAY(RV)) == (int)wd)
__CPROVER_assigns();


/* ---- C05: the inverse laws, as lemmas over the operator contracts ------------------------------------------------------------------------
 * two valid civil seconds with the same second ordinal are the same civil second (mixed-radix digits are unique; equal day ordinals are
 * equal dates by lemma_dayord_lex) */
#define lemma_osec_inj_REQ(a, b) (OVALID(a) && OVALID(b) && OSEC(a) == OSEC(b))
#define lemma_osec_inj_ENS(a, b) (FIELDS_EQ(a, b))
/* the unit ordinal of a valid civil time is representable */
#define lemma_unitrepr_REQ(a) (OVALID(a))
#define lemma_unitrepr_ENS(a) (REPR_second(OSEC(a)) && REPR_minute(OMIN(a)) && REPR_hour(OHOUR(a)) && REPR_day(ODAY(a)))
#pragma CPROVER check pop
