/* /verif/contracts/civil.h - contracts for include/cctz/civil_time_detail.h (unit civil).
 * Function contracts live on declarations; loop contracts are in units/civil_loops.py. */
#include "/verif/spec/gregorian.h"

bool is_leap_year(year_t y)
__CPROVER_ensures(__CPROVER_return_value == (LEAP(y) ? 1 : 0))
__CPROVER_assigns();

int year_index(year_t y, month_t m)
__CPROVER_requires(1 <= m && m <= 12 && y < INT64_MAX)
__CPROVER_ensures(__CPROVER_return_value == FM(y + (m > 2 ? 1 : 0), 400))
__CPROVER_ensures(0 <= __CPROVER_return_value && __CPROVER_return_value < 400)
__CPROVER_assigns();

int days_per_century(int yi)
__CPROVER_requires(0 <= yi && yi < 400)
__CPROVER_ensures(__CPROVER_return_value == SK(yi + 100) - SK(yi))
__CPROVER_assigns();

int days_per_4years(int yi)
__CPROVER_requires(0 <= yi && yi < 400)
__CPROVER_ensures(__CPROVER_return_value == SK(yi + 4) - SK(yi))
__CPROVER_assigns();

int days_per_year(year_t y, month_t m)
__CPROVER_requires(1 <= m && m <= 12 && y < INT64_MAX)
__CPROVER_ensures(__CPROVER_return_value == 365 + (LEAP(y + (m > 2 ? 1 : 0)) ? 1 : 0))
__CPROVER_assigns();

int days_per_month(year_t y, month_t m)
__CPROVER_requires(1 <= m && m <= 12)
__CPROVER_ensures(__CPROVER_return_value == DIM(LEAP(y), m))
__CPROVER_assigns();
