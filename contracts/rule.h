/* /verif/contracts/rule.h - C01 (footer rules): TransOffset gives the start of a POSIX rule date within a year.
 * The specification is relational and written from POSIX, not from the code:
 *   Jn  (1 <= n <= 365): the n-th day of the year NOT counting February 29 - day n-1 (0-based) up to Feb 28, and n-1 plus the leap day after it
 *   n   (0 <= n <= 365): 0-based day of the year, February 29 counted
 *   Mm.w.d: the d-th weekday (0 = Sunday) of week w of month m; w = 5 means the LAST such weekday of the month
 * and the result is that day's offset from the start of the year in seconds, plus the rule's time of day. */
#define RV __CPROVER_return_value
#pragma CPROVER check push
#pragma CPROVER check disable "pointer"
#pragma CPROVER check disable "pointer-primitive"
/* first 0-based day of month m (1..12) and of the month after it */
#define R_CUM(leap, m) ((m) == 1 ? 0 : (m) == 2 ? 31 : (59 + ((leap) ? 1 : 0) + ((m) == 3 ? 0 : (m) == 4 ? 31 : (m) == 5 ? 61 : (m) == 6 ? 92 : (m) == 7 ? 122 : \
                        (m) == 8 ? 153 : (m) == 9 ? 184 : (m) == 10 ? 214 : (m) == 11 ? 245 : (m) == 12 ? 275 : 306)))
#define R_DAY(rv, pt) (((rv) - (pt)->time.offset) / 86400)
#define R_EXACT(rv, pt) (((rv) - (pt)->time.offset) % 86400 == 0)
#define R_FMT_OK(pt) ((pt)->date.fmt == PosixTransition_J ? (1 <= (pt)->date.j.day && (pt)->date.j.day <= 365) : \
                      (pt)->date.fmt == PosixTransition_N ? (0 <= (pt)->date.n.day && (pt)->date.n.day <= 365) : \
                      ((pt)->date.fmt == PosixTransition_M && 1 <= (pt)->date.m.month && (pt)->date.m.month <= 12 && 1 <= (pt)->date.m.week && (pt)->date.m.week <= 5 && \
                       0 <= (pt)->date.m.weekday && (pt)->date.m.weekday <= 6))

int_fast64_t TransOffset(bool leap_year, int jan1_weekday, const PosixTransition* pt)
__CPROVER_requires(__CPROVER_is_fresh(pt, sizeof(PosixTransition)) && R_FMT_OK(pt) && 0 <= jan1_weekday && jan1_weekday <= 6)
/* type invariant of bool (CBMC's symbolic _Bool is an unconstrained byte) */
__CPROVER_requires(leap_year == 0 || leap_year == 1)
__CPROVER_requires(-700000 <= pt->time.offset && pt->time.offset <= 700000)
__CPROVER_ensures(R_EXACT(RV, pt))
__CPROVER_ensures(pt->date.fmt == PosixTransition_J ? R_DAY(RV, pt) == pt->date.j.day - 1 + ((leap_year && pt->date.j.day >= 60) ? 1 : 0) : 1)
__CPROVER_ensures(pt->date.fmt == PosixTransition_N ? R_DAY(RV, pt) == pt->date.n.day : 1)
/* Mm.w.d: inside the month, on the right weekday, in the right week (or the last one) */
__CPROVER_ensures(pt->date.fmt == PosixTransition_M ? (R_CUM(leap_year, pt->date.m.month) <= R_DAY(RV, pt) && R_DAY(RV, pt) < R_CUM(leap_year, pt->date.m.month + 1)) : 1)
__CPROVER_ensures(pt->date.fmt == PosixTransition_M ? ((jan1_weekday + R_DAY(RV, pt)) % 7 == pt->date.m.weekday) : 1)
__CPROVER_ensures((pt->date.fmt == PosixTransition_M && pt->date.m.week < 5) ? ((R_DAY(RV, pt) - R_CUM(leap_year, pt->date.m.month)) / 7 == pt->date.m.week - 1) : 1)
__CPROVER_ensures((pt->date.fmt == PosixTransition_M && pt->date.m.week == 5) ? (R_DAY(RV, pt) + 7 >= R_CUM(leap_year, pt->date.m.month + 1)) : 1)
__CPROVER_assigns();

#pragma CPROVER check pop
