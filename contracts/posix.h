/* /verif/contracts/posix.h - C16: the POSIX TZ string parsers of src/time_zone_posix.cc.
 *
 * Text model: in each enforced function p is the start of a fresh NUL-terminated buffer of gs_n bytes (ghost length, arbitrary up to POSIX_CAP).
 * The three functions are verified with their callees' BODIES (ParseInt's loop through its loop contract at every call site) rather than through
 * callee contracts: a callee is entered with a pointer into the middle of the caller's text, which __CPROVER_is_fresh cannot describe.
 *
 * What the contracts pin down (C16: "every field of the result is determined by the text"):
 *   ParseInt       on success consumed >= 1 digit, stopped at a non-digit, value in [min, max]; on failure *vp untouched
 *   ParseOffset    on success *offset = (sign, flipped by a leading '-') * magnitude with 0 <= magnitude <= max_hour:59:59
 *                  (hours, minutes and seconds are digit strings, so the magnitude is never negative - also for "-0:30")
 *   ParseDateTime  on success the WHOLE transition is assigned: date.fmt is one of J / N / M with its fields in the POSIX ranges
 *                  (exactly the precondition of TransOffset, contracts/rule.h) and time.offset within +-167:59:59
 */
#define RV __CPROVER_return_value
/* trusted model of strchr (first occurrence of c in the NUL-terminated s, the terminator itself matching c == 0); its loop is unwound to
 * the length of the two literal strings it is called with ("0123456789", "-+,") with an unwinding assertion */
static inline char* v_strchr(const char* s, int c)
{
  for (size_t i = 0; ; ++i) {
    if (s[i] == (char)c) return (char*)(s + i);
    if (s[i] == 0) return NULL;
  }
}
#define strchr(s, c) v_strchr(s, c)
extern size_t gs_n;          /* ghost: number of bytes from p to the terminating NUL, inclusive */
#ifndef POSIX_CAP
#define POSIX_CAP 4096       /* sizes the symbolic buffer only; no loop bound depends on it */
#endif
/* p is the start of a fresh NUL-terminated text of gs_n bytes (the functions never look before p) */
#define TEXT_AT(p) (__CPROVER_is_fresh(p, gs_n) && 1 <= gs_n && gs_n <= POSIX_CAP && (p)[gs_n - 1] == 0)
/* q is a position inside that text, not beyond its NUL */
#define IN_TEXT(q, p) (__CPROVER_same_object(q, p) && (size_t)__CPROVER_POINTER_OFFSET(q) <= gs_n - 1)
#define AFTER(q, p) (__CPROVER_POINTER_OFFSET(q) > __CPROVER_POINTER_OFFSET(p))
#define IS_DIGIT(c) ('0' <= (c) && (c) <= '9')

const char* ParseInt(const char* p, int min, int max, int* vp)
__CPROVER_requires(TEXT_AT(p) && __CPROVER_is_fresh(vp, sizeof(int)))
__CPROVER_ensures(RV == NULL ? *vp == __CPROVER_old(*vp) :
                  (IN_TEXT(RV, p) && AFTER(RV, p) && !IS_DIGIT(*RV) && IS_DIGIT(*(RV - 1)) && min <= *vp && *vp <= max && 0 <= *vp))
__CPROVER_assigns(*vp);

/* ghost mirrors of the three numbers ParseOffset reads (set by ghost code right after each ParseInt call; minutes / seconds stay 0 when absent):
 * the postcondition pins how they are COMBINED - sign, flipped by a leading '-', times ((h * 60 + m) * 60 + s) */
extern int gp_h, gp_m, gp_s;
const char* ParseOffset(const char* p, int min_hour, int max_hour, int sign, int_fast32_t* offset)
__CPROVER_requires((p == NULL || TEXT_AT(p)) && __CPROVER_is_fresh(offset, sizeof(int_fast32_t)))
__CPROVER_requires(-200 <= min_hour && min_hour <= max_hour && max_hour <= 200 && (sign == 1 || sign == -1))
__CPROVER_ensures(RV == NULL ? 1 : (p != NULL && IN_TEXT(RV, p) && AFTER(RV, p) && \
                  0 <= gp_h && min_hour <= gp_h && gp_h <= max_hour && 0 <= gp_m && gp_m <= 59 && 0 <= gp_s && gp_s <= 59 && \
                  (long)*offset == (long)sign * (p[0] == '-' ? -1 : 1) * ((((long)gp_h * 60) + gp_m) * 60 + gp_s)))
__CPROVER_assigns(*offset, gp_h, gp_m, gp_s);

#define DT_FMT_OK(pt) (((pt)->date.fmt == PosixTransition_J && 1 <= (pt)->date.j.day && (pt)->date.j.day <= 365) || \
                       ((pt)->date.fmt == PosixTransition_N && 0 <= (pt)->date.n.day && (pt)->date.n.day <= 365) || \
                       ((pt)->date.fmt == PosixTransition_M && 1 <= (pt)->date.m.month && (pt)->date.m.month <= 12 && 1 <= (pt)->date.m.week && (pt)->date.m.week <= 5 && \
                        0 <= (pt)->date.m.weekday && (pt)->date.m.weekday <= 6))
const char* ParseDateTime(const char* p, PosixTransition* res)
__CPROVER_requires((p == NULL || TEXT_AT(p)) && __CPROVER_is_fresh(res, sizeof(PosixTransition)))
/* success means a complete rule was read: the date form and its fields are assigned and in range, and so is the time */
__CPROVER_ensures(RV == NULL ? 1 : (p != NULL && IN_TEXT(RV, p) && DT_FMT_OK(res) && -167L * 3600 - 3599 <= res->time.offset && res->time.offset <= 167L * 3600 + 3599))
__CPROVER_assigns(*res, gp_h, gp_m, gp_s);
