#!/usr/bin/env python3
"""
vdriver: extraction -> goto-cc -> goto-instrument (dfcc contracts) -> cbmc, one obligation (group)
per process, 16 in parallel, SAT / cvc5 integer-blasting portfolio.  Used by bin/check.
"""
import os
import sys
import re
import json
import time
import shutil
import signal
import hashlib
import resource
import subprocess
import tempfile
import threading
import concurrent.futures as cf

HERE = os.path.dirname(os.path.abspath(__file__))
VERIF = os.path.dirname(HERE)
REPO = os.environ.get('VERIF_REPO', '/repo')
NCPU = int(os.environ.get('VERIF_JOBS', '16'))
MEM_LIMIT = int(os.environ.get('VERIF_MEM_GB', '10')) * (1 << 30)

sys.path.insert(0, HERE)
sys.path.insert(0, os.path.join(VERIF, 'units'))
import extract  # noqa: E402

CBMC_CHECKS = ['--conversion-check', '--pointer-overflow-check', '--object-bits', '12', '--no-malloc-may-fail']
BACKENDS = {
    'sat': ['--sat-solver', 'cadical'],
    'smt': ['--cvc5', '--external-smt2-solver', os.path.join(VERIF, 'solvers', 'cvc5ib')],
    'minisat': [],
    'z3': ['--z3'],
    'cvc5bv': ['--cvc5'],
    'kissat': ['--external-sat-solver', 'kissat'],
}


class Undecided(Exception):
    """machinery could not decide (exit 2)"""


def log(*a):
    print(*a, file=sys.stderr, flush=True)


class Goal:
    def __init__(self, name, unit, harness=None, enforce=None, replace='auto', backends=('cvc5bv', 'smt', 'sat'), timeout=120,
                 tier='quick', unwind=None, bounded=None, props=(), loop_contracts=True, split=True, extra=(),
                 no_replace=(), slow=(), kind=None, defines=(), expect_min=1, only_backend=None, aux=False):
        self.name = name
        self.unit = unit
        self.enforce = enforce
        self.harness = harness or ('h_' + enforce if enforce else name)
        self.replace = replace
        self.backends = list(backends)
        self.timeout = timeout
        self.tier = tier
        self.unwind = unwind
        self.bounded = bounded      # text describing the bound if this goal is only a bounded stand-in
        self.props = list(props)
        self.loop_contracts = loop_contracts
        self.split = split          # run every contract-level obligation in its own process
        self.extra = list(extra)
        self.no_replace = set(no_replace)
        self.slow = dict(slow) if slow else {}      # obligation regex -> (backend, timeout)
        self.kind = kind or ('enforce' if enforce else 'lemma')
        self.defines = list(defines)
        self.expect_min = expect_min
        self.aux = aux


class Obligation:
    def __init__(self, goal, name, desc, cls, loc):
        self.goal = goal
        self.name = name
        self.desc = desc
        self.cls = cls
        self.loc = loc
        self.status = None     # SUCCESS / FAILURE / UNDECIDED
        self.backend = None
        self.secs = 0.0
        self.trace = None
        self.output = ''


def classify(name, desc):
    d = desc.lower()
    if 'postcondition' in name or 'check ensures' in d:
        return 'postcondition'
    if 'loop_invariant_base' in name or 'invariant before entry' in d:
        return 'invariant_base'
    if 'loop_invariant_step' in name or 'invariant is preserved' in d or 'loop_step' in name:
        return 'invariant_step'
    if 'loop_decreases' in name or 'decreases clause' in d or 'variant' in d:
        return 'decreases'
    if 'precondition' in name or 'check requires' in d:
        return 'precondition'
    if 'assigns' in name or 'is assignable' in d or 'assignable' in d:
        return 'assigns'
    if 'overflow' in name:
        return 'overflow'
    if 'pointer' in name or 'bounds' in name or 'array' in name:
        return 'memory'
    if 'assertion' in name:
        return 'assertion'
    if 'unwind' in name:
        return 'unwind'
    return 'other'


CONTRACT_CLASSES = ('postcondition', 'invariant_base', 'invariant_step', 'decreases', 'precondition', 'assertion')


PROC_SEM = threading.BoundedSemaphore(NCPU)


def run_cmd(cmd, timeout, cwd=None, env=None, cancel=None, sem=False):
    """-> (rc, stdout, stderr, secs, timed_out)   (timed_out is also True when cancelled)"""
    def limits():
        os.setsid()
        resource.setrlimit(resource.RLIMIT_AS, (MEM_LIMIT, MEM_LIMIT))
    if sem:
        PROC_SEM.acquire()
    try:
        if cancel is not None and cancel.is_set():
            return -9, '', '', 0.0, True
        t0 = time.time()
        fo = tempfile.TemporaryFile()
        fe = tempfile.TemporaryFile()
        p = subprocess.Popen(cmd, stdout=fo, stderr=fe, cwd=cwd, env=env, preexec_fn=limits)
        timed_out = False
        while True:
            try:
                p.wait(timeout=0.2)
                break
            except subprocess.TimeoutExpired:
                if time.time() - t0 > timeout or (cancel is not None and cancel.is_set()):
                    timed_out = True
                    try:
                        os.killpg(p.pid, signal.SIGKILL)
                    except ProcessLookupError:
                        pass
                    p.wait()
                    break
        fo.seek(0)
        fe.seek(0)
        out = fo.read().decode(errors='replace')
        err = fe.read().decode(errors='replace')
        fo.close()
        fe.close()
        return (-9 if timed_out else p.returncode), out, err, time.time() - t0, timed_out
    finally:
        if sem:
            PROC_SEM.release()


class Run:
    def __init__(self, tier='quick', seed=0):
        self.tier = tier
        self.seed = seed
        self.root = os.path.join(VERIF, 'build', 'run-%d' % os.getpid())
        os.makedirs(self.root, exist_ok=True)
        self.tmp = os.path.join(self.root, 'tmp')
        os.makedirs(self.tmp, exist_ok=True)
        self.env = dict(os.environ, TMPDIR=self.tmp)
        self.units = {}
        self.lock = threading.Lock()
        self.solver_secs = 0.0
        self.t0 = time.time()

    def cleanup(self):
        shutil.rmtree(self.root, ignore_errors=True)

    # ---------------------------------------------------------------- extraction
    def unit(self, name):
        if name in self.units:
            return self.units[name]
        outdir = os.path.join(self.root, name)
        try:
            cfile = extract.run(name, REPO, outdir)
        except extract.ExtractError as e:
            raise Undecided('extraction broke for unit %s: %s' % (name, e))
        rep = json.load(open(os.path.join(outdir, name + '.extract.json')))
        ctext = open(cfile).read()
        info = dict(cfile=cfile, outdir=outdir, report=rep, ctext=ctext)
        info['contracted'] = self.contracted_functions(name)
        info['calls'] = self.call_graph(ctext, [f['cname'] for f in rep['functions']] + list(info['contracted']))
        self.units[name] = info
        return info

    def contracted_functions(self, unit):
        mod = extract.load_unit(unit)
        names = set()
        for h in getattr(mod, 'CONTRACT_HEADERS', [os.path.join(VERIF, 'contracts', unit + '.h')]):
            if not os.path.exists(h):
                continue
            txt = open(h).read()
            txt = re.sub(r'/\*.*?\*/', ' ', txt, flags=re.S)
            txt = re.sub(r'//[^\n]*', ' ', txt)
            for m in re.finditer(r'\b(\w+)\s*\(([^;{}()]|\([^()]*\))*\)\s*__CPROVER_(requires|ensures|assigns)', txt):
                names.add(m.group(1))
        return names

    def call_graph(self, ctext, fnames):
        """direct callees (by name) of each function defined in the generated C"""
        calls = {}
        fset = set(fnames)
        # function definitions: "name(...)\n{"
        for m in re.finditer(r'^[\w\* ]+?\b(\w+)\(([^;{}]*)\)\s*\n\{', ctext, flags=re.M):
            fn = m.group(1)
            # body: up to the next line that is exactly "}"
            end = ctext.find('\n}\n', m.end())
            body = ctext[m.end():end]
            calls[fn] = set(x for x in re.findall(r'\b(\w+)\s*\(', body) if x in fset and x != fn)
        return calls

    # ---------------------------------------------------------------- build one goal
    def build_goal(self, g):
        u = self.unit(g.unit)
        gdir = os.path.join(self.root, g.unit, g.name)
        os.makedirs(gdir, exist_ok=True)
        gb0 = os.path.join(gdir, 'a.gb')
        cmd = ['goto-cc', '--function', g.harness, u['cfile'], '-o', gb0, '-DVERIF_CBMC'] + ['-D' + d for d in g.defines]
        rc, out, err, secs, to = run_cmd(cmd, 120, env=self.env)
        if rc != 0:
            raise Undecided('goto-cc failed for %s: %s' % (g.name, (out + err)[-2000:]))
        gb = os.path.join(gdir, 'b.gb')
        cmd = ['goto-instrument', '--dfcc', g.harness]
        replaced = []
        if g.enforce:
            cmd += ['--enforce-contract', g.enforce]
        if g.replace == 'auto':
            # every contracted function reachable from the entry without passing through another contracted one
            start = g.enforce or g.harness
            seen = set()
            todo = [start]
            while todo:
                f = todo.pop()
                for c in u['calls'].get(f, ()):
                    if c in seen:
                        continue
                    seen.add(c)
                    if c in u['contracted'] and c not in g.no_replace and c != g.enforce:
                        replaced.append(c)
                    else:
                        todo.append(c)
        else:
            replaced = list(g.replace)
        for r in replaced:
            cmd += ['--replace-call-with-contract', r]
        if g.loop_contracts:
            cmd += ['--apply-loop-contracts']
        cmd += [gb0, gb]
        rc, out, err, secs, to = run_cmd(cmd, 300, env=self.env)
        if rc != 0:
            raise Undecided('goto-instrument failed for %s: %s' % (g.name, (out + err)[-3000:]))
        g.replaced = replaced
        g.gb = gb
        g.gdir = gdir
        return gb

    def cbmc_base(self, g):
        cmd = ['cbmc', g.gb] + CBMC_CHECKS + g.extra
        if g.unwind:
            cmd += ['--unwind', str(g.unwind), '--unwinding-assertions']
        return cmd

    def list_obligations(self, g):
        cmd = self.cbmc_base(g) + ['--show-properties', '--json-ui']
        rc, out, err, secs, to = run_cmd(cmd, 300, env=self.env)
        try:
            js = json.loads(out)
        except Exception:
            raise Undecided('cannot list obligations of %s: %s' % (g.name, (out + err)[-2000:]))
        obs = []
        for el in js:
            if isinstance(el, dict) and 'properties' in el:
                for p in el['properties']:
                    loc = p.get('sourceLocation', {})
                    obs.append(Obligation(g, p['name'], p.get('description', ''), classify(p['name'], p.get('description', '')),
                                          '%s:%s' % (loc.get('function', ''), loc.get('line', ''))))
        return obs

    # ---------------------------------------------------------------- solve
    def solve(self, g, obs, backend, timeout, cancel=None):
        """run one cbmc process on the obligations `obs`; fills in status for those it decides."""
        cmd = self.cbmc_base(g) + BACKENDS[backend] + ['--trace', '--json-ui']
        for o in obs:
            cmd += ['--property', o.name]
        rc, out, err, secs, to = run_cmd(cmd, timeout, env=self.env, cancel=cancel, sem=True)
        with self.lock:
            self.solver_secs += secs
        if 'ignoring' in out or 'ignoring' in err:
            # quantifier silently dropped by the SAT back end: result is not trustworthy
            return 'ERROR', secs, 'back end ignored a quantifier'
        if to:
            return 'TIMEOUT', secs, ''
        if rc not in (0, 10):
            return 'ERROR', secs, (out + err)[-1500:]
        try:
            js = json.loads(out)
        except Exception:
            return 'ERROR', secs, out[-1500:]
        results = None
        for el in js:
            if isinstance(el, dict) and 'result' in el:
                results = el['result']
        if results is None:
            return 'ERROR', secs, out[-1500:]
        byname = {r['property']: r for r in results}
        with self.lock:
            for o in obs:
                r = byname.get(o.name)
                if r is None or o.status is not None:
                    continue
                st = r.get('status')
                if st == 'SUCCESS':
                    o.status = 'SUCCESS'
                elif st == 'FAILURE':
                    o.status = 'FAILURE'
                    o.trace = r.get('trace')
                else:
                    continue
                o.backend = backend
                o.secs = secs
        return 'OK', secs, ''

    def decide(self, g, obs):
        """portfolio over back ends for a group of obligations"""
        order = list(g.backends)
        tmo = g.timeout
        for pat, (be, t) in g.slow.items():
            if any(re.search(pat, o.name) for o in obs):
                order = [be] + [b for b in order if b != be]
                tmo = max(tmo, t)
        if self.tier == 'thorough':
            tmo = max(tmo * 4, 600)
        notes = []
        cancel = threading.Event()

        def one(be):
            pending = [o for o in obs if o.status is None]
            if not pending:
                return
            st, secs, msg = self.solve(g, pending, be, tmo, cancel)
            notes.append('%s:%s:%.1fs' % (be, st, secs))
            if st == 'ERROR' and msg:
                for o in pending:
                    o.output += '[%s] %s\n' % (be, msg)
            if all(o.status is not None for o in obs):
                cancel.set()
        ths = [threading.Thread(target=one, args=(be,)) for be in order]
        for t in ths:
            t.start()
        for t in ths:
            t.join()
        for o in obs:
            if o.status is None:
                o.status = 'UNDECIDED'
                o.output += ' '.join(notes)
        return obs

    def run_goal(self, g, pool):
        """returns list of futures; obligations are filled in asynchronously"""
        self.build_goal(g)
        obs = self.list_obligations(g)
        g.obligations = obs
        if len(obs) < g.expect_min:
            raise Undecided('vacuity guard: goal %s generated %d obligations, expected >= %d' % (g.name, len(obs), g.expect_min))
        if g.enforce and not any(o.cls == 'postcondition' for o in obs):
            raise Undecided('vacuity guard: goal %s has no postcondition obligation' % g.name)
        groups = []
        cheap = [o for o in obs if o.cls not in CONTRACT_CLASSES]
        contract = [o for o in obs if o.cls in CONTRACT_CLASSES]
        if g.split:
            if cheap:
                groups.append(cheap)
            for o in contract:
                groups.append([o])
        else:
            groups.append(obs)
        futs = [pool.submit(self.decide, g, grp) for grp in groups]
        return futs


def trace_inputs(trace, harness):
    """Extract the values the harness's nondeterministic locals were given in a CBMC json trace."""
    vals = {}
    if not trace:
        return vals
    for st in trace:
        if st.get('stepType') != 'assignment':
            continue
        loc = st.get('sourceLocation', {})
        lhs = st.get('lhs', '')
        v = st.get('value', {})
        fn = loc.get('function', '')
        if fn == harness or st.get('assignmentType') == 'actual-parameter':
            if 'data' in v:
                vals[lhs] = v['data']
            elif 'members' in v:
                vals[lhs] = flatten_struct(v)
    return vals


def flatten_struct(v):
    if 'members' in v:
        return {m['name']: flatten_struct(m['value']) for m in v['members']}
    if 'elements' in v:
        return [flatten_struct(e['value']) for e in v['elements']]
    return v.get('data')
