#!/usr/bin/env python3
"""
extract.py <unit> <repo> <outdir>

Mechanically extracts the functions of a verification unit from /repo's *current working
tree* and writes <outdir>/<unit>.c (C translation unit: extracted types + contract header +
extracted functions with loop contracts spliced + harnesses) and
<outdir>/<unit>.extract.json (source hashes, rule fire counts, loops).

Exit status: 0 ok; 2 extraction broke (function missing/duplicated/outside the subset).
"""
import sys
import os
import re
import json
import hashlib
import importlib.util

HERE = os.path.dirname(os.path.abspath(__file__))
VERIF = os.path.dirname(HERE)
sys.path.insert(0, HERE)
sys.path.insert(0, os.path.join(VERIF, "units"))
import cxx2c  # noqa: E402
from cxx2c import (ExtractError, Ctx, FuncSig, Param, Parser, FuncTranslator, tokenize,  # noqa: E402
                   strip_comments, fire, RULES, is_civil, civil_tag, TAGS)


def match_close(text, i, open_c, close_c):
    """text[i] == open_c; returns index of the matching close_c (string/char aware)."""
    depth = 0
    n = len(text)
    j = i
    while j < n:
        c = text[j]
        if c == '"' or c == "'":
            k = j + 1
            while k < n and text[k] != c:
                if text[k] == '\\':
                    k += 1
                k += 1
            j = k + 1
            continue
        if c == open_c:
            depth += 1
        elif c == close_c:
            depth -= 1
            if depth == 0:
                return j
        j += 1
    raise ExtractError('unbalanced %s' % open_c)


class Source:
    def __init__(self, repo, rel):
        self.rel = rel
        self.path = os.path.join(repo, rel)
        if not os.path.exists(self.path):
            raise ExtractError('source file missing: ' + rel)
        self.raw = open(self.path).read()
        self.text = strip_comments(self.raw)
        fire('R0')

    def find_defs(self, head_re, within=None):
        """All definitions whose head matches head_re (which must end just before the '(' of the
        parameter list).  Returns list of dicts."""
        text = self.text
        lo, hi = within if within else (0, len(text))
        res = []
        for m in re.finditer(head_re, text[lo:hi]):
            s = lo + m.start()
            po = lo + m.end()
            while text[po].isspace():
                po += 1
            if text[po] != '(':
                continue
            pc = match_close(text, po, '(', ')')
            # trailer up to '{' or ';'
            k = pc + 1
            init = None
            while True:
                while text[k].isspace():
                    k += 1
                if text[k] == '{':
                    break
                if text[k] == ';':
                    k = None
                    break
                if text[k] == ':' and text[k + 1] != ':':
                    # ctor init list:  : name(args) {}  or : name{args} {}
                    mm = re.match(r':\s*(\w+)\s*([({])', text[k:])
                    if not mm:
                        raise ExtractError('ctor init list not understood: ' + text[k:k + 60])
                    oc = k + mm.end() - 1
                    cc = match_close(text, oc, text[oc], ')' if text[oc] == '(' else '}')
                    init = (mm.group(1), text[oc], text[oc + 1:cc])
                    k = cc + 1
                    continue
                if text[k] == '=':
                    # = default / = delete
                    k = None
                    break
                mm = re.match(r'(noexcept|const|override|final|->\s*[\w:<>]+)', text[k:])
                if not mm:
                    k = None   # not a definition (e.g. a call expression)
                    break
                k += mm.end()
            if k is None:
                continue  # declaration only
            bc = match_close(text, k, '{', '}')
            res.append(dict(start=s, head=text[s:po], params=text[po + 1:pc], trailer=text[pc + 1:k],
                            body=text[k:bc + 1], end=bc + 1, init=init, m=m))
        return res

    def find_one(self, head_re, within=None, what=None):
        r = self.find_defs(head_re, within)
        if len(r) != 1:
            raise ExtractError('%s: expected exactly one definition matching /%s/ in %s, found %d' % (
                what or 'function', head_re, self.rel, len(r)))
        return r[0]

    def find_block(self, head_re, what=None):
        """A `struct X {` / `class X {` / `enum class X {` block: returns (start, bodytext, end)."""
        ms = list(re.finditer(head_re, self.text))
        ms = [m for m in ms if self.text[m.end() - 1] == '{']
        if len(ms) != 1:
            raise ExtractError('%s: expected one block /%s/ in %s, found %d' % (what or 'block', head_re, self.rel, len(ms)))
        m = ms[0]
        o = m.end() - 1
        c = match_close(self.text, o, '{', '}')
        return m.start(), self.text[o + 1:c], c + 1


class Unit:
    def __init__(self, name, repo):
        self.name = name
        self.repo = repo
        self.ctx = Ctx()
        self.sources = {}
        self.type_text = []      # emitted C for types
        self.func_text = []      # emitted C for functions (after contracts header)
        self.proto_text = []
        self.report = dict(unit=name, functions=[], spans=[], loops={}, dropped=[])
        self.pending = []        # (sig, body tokens, meta) translated after all sigs are known
        self.loop_contracts = {}  # cname -> {n: text}
        self.pre_loop = {}
        self.stmt_hooks = {}
        self.extra_includes = []
        self.extra_scope = {}
        self.contracts_header = None
        self.harness_files = []
        self.expected_loops = {}

    def src(self, rel):
        if rel not in self.sources:
            self.sources[rel] = Source(self.repo, rel)
        return self.sources[rel]

    def span(self, rel, what, text):
        self.report['spans'].append(dict(file=rel, what=what, sha256=hashlib.sha256(text.encode()).hexdigest(), bytes=len(text)))

    # ---- types
    def typedef_using(self, rel, names):
        s = self.src(rel)
        for nm in names:
            m = re.findall(r'\busing\s+%s\s*=\s*([\w:]+)\s*;' % nm, s.text)
            if len(m) != 1:
                raise ExtractError('using %s: %d matches' % (nm, len(m)))
            fire('R5')
            t = m[0].replace('std::', '')
            self.ctx.typedefs[nm] = t
            self.ctx.type_names.add(nm)
            self.type_text.append('typedef %s %s;' % (t, nm))
            self.span(rel, 'using ' + nm, 'using %s = %s;' % (nm, m[0]))

    def parse_member_decls(self, body, structname):
        """Data member declarations `type a, b;` at depth 0 of a struct body. Skips functions."""
        members = {}
        order = []
        # remove nested blocks (functions, nested structs) first
        flat = ''
        i = 0
        depth = 0
        while i < len(body):
            c = body[i]
            if c == '{':
                j = match_close(body, i, '{', '}')
                flat += '{};'
                i = j + 1
                continue
            flat += c
            i += 1
        for stmt in flat.split(';'):
            st = stmt.strip()
            st = re.sub(r'=\s*\{\s*\}\s*$', '', st).strip()   # default member initialiser "= {}"
            if not st or '(' in st or '{}' in st or st.startswith(('public:', 'private:', 'protected:', 'using ', 'friend ', 'template', 'enum ', 'struct ', 'union')):
                # access specifiers may prefix a declaration
                st2 = re.sub(r'^(public|private|protected)\s*:\s*', '', st)
                if st2 == st or not st2 or '(' in st2 or '{}' in st2:
                    continue
                st = st2
            st = re.sub(r'^(public|private|protected)\s*:\s*', '', st)
            st = re.sub(r'=\s*\{\s*\}\s*$', '', st).strip()   # default member initialiser "= {}"
            toks = tokenize(st)
            p = Parser(toks, self.ctx, {})
            try:
                ty, is_ref, is_const, _ = p.parse_type()
            except ExtractError:
                continue
            while True:
                nm = p.next()
                if nm.kind != 'id':
                    break
                dims = ''
                while p.accept('['):
                    dims += '[' + p.next().text + ']'
                    p.expect(']')
                members[nm.text] = ty + dims
                if not p.accept(','):
                    break
        return members

    def vector_type(self, elem):
        """std::vector<elem> -> struct vec_<elem> { elem* data; size_t size; }  (R14; growth is done by trusted stubs)"""
        fire('R14')
        self.type_text.append('typedef struct vec_%s { %s* data; size_t size; } vec_%s;' % (elem, elem, elem))
        self.ctx.type_names.add('vec_' + elem)
        self.ctx.structs['vec_' + elem] = {'data': elem + '*', 'size': 'size_t'}

    def emit_struct(self, name, members, cname=None):
        cname = cname or name
        em = cxx2c.Emitter(self.ctx, {})
        lines = ['typedef struct %s {' % cname]
        for m, t in members.items():
            mm = re.match(r'(.*?)((\[\w*\])+)$', t)
            if mm:
                lines.append('  %s %s%s;' % (em.ctype(mm.group(1)), m, mm.group(2)))
            else:
                lines.append('  %s %s;' % (em.ctype(t), m))
        pad = getattr(self, 'struct_pad', {}).get(cname)
        if pad:
            # R19: trailing padding so that sizeof is a power of two (layout only: no extracted code observes sizeof or the padding)
            cxx2c.fire('R19')
            lines.append('  char vpad_[%d];' % pad)
        lines.append('} %s;' % cname)
        # positional constructor used for brace-init (R7)
        if all('[' not in t for t in members.values()):
            ps = ', '.join('%s %s_' % (em.ctype(t), m) for m, t in members.items())
            body = ' '.join('r.%s = %s_;' % (m, m) for m in members)
            lines.append('static inline %s mk_%s(%s) { %s r; %s return r; }' % (cname, cname, ps, cname, body))
        self.type_text.append('\n'.join(lines))
        self.ctx.add_struct(cname, members)

    def struct(self, rel, name, cname=None, head=None):
        s = self.src(rel)
        st, body, en = s.find_block(head or (r'\bstruct\s+%s\s*\{' % name), 'struct ' + name)
        self.span(rel, 'struct ' + name, s.text[st:en])
        members = self.parse_member_decls(body, name)
        if not members:
            raise ExtractError('struct %s: no data members found' % name)
        self.ctx.type_names.add(cname or name)
        self.emit_struct(name, members, cname)
        return body

    def struct_nested_in(self, rel, name, head, qual):
        """like struct_nested for a struct nested in a class (e.g. time_zone::civil_lookup); enum constants are
        registered under qual::name::X"""
        s = self.src(rel)
        st, body, en = s.find_block(head, 'struct ' + name)
        self.span(rel, 'struct ' + name, s.text[st:en])
        self.ctx.type_names.add(name)
        self._nested(name, body, [name])
        for k in list(self.ctx.enum_consts):
            if k.startswith(name + '::'):
                self.ctx.enum_consts[qual + '::' + k] = self.ctx.enum_consts[k]

    def class_members(self, rel, cls, cname=None):
        """data members of a class -> C struct (member functions, access specifiers, friends dropped: R9)"""
        s = self.src(rel)
        st, body, en = s.find_block(r'\bclass\s+%s\b[^{;]*\{' % cls, 'class ' + cls)
        self.span(rel, 'class ' + cls + ' (data members)', s.text[st:en])
        members = self.parse_member_decls(body, cls)
        if not members:
            raise ExtractError('class %s: no data members found' % cls)
        fire('R9')
        self.ctx.type_names.add(cname or cls)
        self.emit_struct(cls, members, cname)
        return members

    def struct_nested(self, rel, name):
        """struct with nested struct / enum / anonymous-union definitions (PosixTransition).  Nested types are
        hoisted to file scope with the enclosing struct's name as prefix; `S::X` spellings map to `S_X`."""
        s = self.src(rel)
        st, body, en = s.find_block(r'\bstruct\s+%s\s*\{' % name, 'struct ' + name)
        self.span(rel, 'struct ' + name, s.text[st:en])
        self.ctx.type_names.add(name)
        self._nested(name, body, [name])

    def _nested(self, cname, body, scope_names, outer=None):
        """emit typedef struct cname {...}; returns members"""
        local_types = dict(outer or {})
        members = {}
        lines = []
        i = 0
        body = body.strip()
        while i < len(body):
            m = re.match(r'\s*(struct|enum|union)\s*(\w*)\s*\{', body[i:])
            if m:
                o = i + m.end() - 1
                c = match_close(body, o, '{', '}')
                inner = body[o + 1:c]
                rest = re.match(r'\s*(\w*)\s*;', body[c + 1:])
                after = c + 1 + rest.end()
                kind, nm, var = m.group(1), m.group(2), rest.group(1)
                if kind == 'enum':
                    consts = [x.strip() for x in inner.split(',') if x.strip()]
                    tname = '%s_%s' % (cname, nm)
                    fire('R13')
                    for cst in consts:
                        self.ctx.enum_consts['%s::%s' % (scope_names[0], cst)] = ('%s_%s' % (scope_names[0], cst), tname)
                    self.type_text.append('typedef enum { %s } %s;' % (', '.join('%s_%s' % (scope_names[0], cst) for cst in consts), tname))
                    self.ctx.type_names.add(tname)
                    self.ctx.type_names.add('%s::%s' % (scope_names[0], nm))
                    local_types[nm] = tname
                    if var:
                        members[var] = tname
                        lines.append('  %s %s;' % (tname, var))
                elif kind == 'struct':
                    tname = '%s_%s' % (cname, nm)
                    self.ctx.type_names.add(tname)
                    self.ctx.type_names.add('%s::%s' % (cname, nm))
                    self._nested_with(tname, inner, scope_names, local_types)
                    local_types[nm] = tname
                    if var:
                        members[var] = tname
                        lines.append('  %s %s;' % (tname, var))
                elif kind == 'union':
                    um = self._members(inner, local_types)
                    if var:
                        raise ExtractError('named union member not in subset')
                    lines.append('  union { %s };' % ' '.join('%s %s;' % (t, n_) for n_, t in um.items()))
                    members.update(um)
                i = after
                continue
            m = re.match(r'\s*([^;{}]+);', body[i:])
            if not m:
                break
            mm = self._members(m.group(1) + ';', local_types)
            for n_, t in mm.items():
                lines.append('  %s %s;' % (t, n_))
            members.update(mm)
            i += m.end()
        self.type_text.append('typedef struct %s {\n%s\n} %s;' % (cname, '\n'.join(lines), cname))
        self.ctx.structs[cname] = members
        self.ctx.type_names.add(cname)
        return members

    def _nested_with(self, cname, body, scope_names, outer_types):
        return self._nested(cname, body, scope_names, outer_types)

    def _members(self, text, local_types):
        out = {}
        for stmt in text.split(';'):
            st = stmt.strip()
            if not st:
                continue
            toks = st.replace('std::', '').split()
            nm = toks[-1]
            ty = ' '.join(toks[:-1])
            ty = local_types.get(ty, ty)
            if ty == 'string':
                ty = 'vstr'
            if ty.replace(' ', '') == 'time_point<seconds>':
                ty = 'time_point_s'
            out[nm] = ty
        return out

    def enum_class(self, rel, name):
        s = self.src(rel)
        st, body, en = s.find_block(r'\benum\s+class\s+%s\s*\{' % name, 'enum ' + name)
        self.span(rel, 'enum ' + name, s.text[st:en])
        names = [x.strip() for x in body.split(',') if x.strip()]
        fire('R13')
        for n_ in names:
            self.ctx.enum_consts['%s::%s' % (name, n_)] = ('%s_%s' % (name, n_), name)
        self.ctx.type_names.add(name)
        self.type_text.append('typedef enum { %s } %s;' % (', '.join('%s_%s' % (name, n_) for n_ in names), name))

    def global_const(self, rel, name, ctype_hint=None):
        """file-scope constant `const T name[...] = ...;` copied verbatim (std:: stripped)"""
        s = self.src(rel)
        ms = re.findall(r'^\s*((?:static\s+)?const\s+[\w:]+\s+%s\s*((?:\[[^\]]*\])*)\s*=\s*[^;]*;)' % name, s.text, flags=re.M)
        if len(ms) != 1:
            raise ExtractError('global constant %s: %d matches in %s' % (name, len(ms), rel))
        txt = ms[0][0].strip().replace('std::', '')
        self.span(rel, 'const ' + name, txt)
        mm = re.match(r'(?:static\s+)?const\s+([\w]+)\s+%s\s*((?:\[[^\]]*\])*)' % name, txt)
        ty = mm.group(1) + mm.group(2)
        # R11c: a scalar constant used in a later constant's initialiser is not a constant expression in C (C++ allows it):
        # its name is replaced there by its parenthesised initialiser text
        head, eq, init = txt.partition('=')
        for prev, ptxt in getattr(self, 'scalar_const_inits', {}).items():
            if re.search(r'\b%s\b' % prev, init):
                cxx2c.fire('R11c')
                init = re.sub(r'\b%s\b' % prev, '(' + ptxt + ')', init)
        txt = head + eq + init
        if not mm.group(2):
            if not hasattr(self, 'scalar_const_inits'):
                self.scalar_const_inits = {}
            self.scalar_const_inits[name] = init.strip().rstrip(';').strip()
        self.type_text.append(('static ' if not txt.startswith('static') else '') + txt)
        self.ctx.const_exprs[name] = (name, ty)
        return ty

    # ---- functions
    def parse_params(self, ptext, tagdispatch_ok=True):
        """-> (params, tag)  tag = name of a leading unnamed tag parameter, if any"""
        toks = tokenize(ptext)
        params = []
        tag = None
        if not toks:
            return params, tag
        # split at top-level commas
        groups = []
        depth = 0
        cur = []
        for t in toks:
            if t.text in '([{' or t.text == '<':
                depth += 1
            elif t.text in ')]}' or t.text == '>':
                depth -= 1
            if t.text == ',' and depth == 0:
                groups.append(cur)
                cur = []
            else:
                cur.append(t)
        groups.append(cur)
        for gi, g in enumerate(groups):
            if len(g) == 1 and g[0].text.endswith('_tag'):
                if gi != 0:
                    raise ExtractError('tag parameter not first')
                tag = g[0].text[:-4]
                continue
            if g and g[0].text == 'preserves_data':
                fire('R10')   # SFINAE-only parameter `preserves_data<T,U>* = nullptr`: template machinery, dropped
                continue
            p = Parser(g, self.ctx, {})
            ty, is_ref, is_const, _ = p.parse_type()
            name = None
            default = None
            if not p.at_end() and p.peek().kind == 'id':
                name = p.next().text
            if p.accept('='):
                dt = p.toks[p.i:]
                default = ' '.join(t.text for t in dt)
                if default == 'nullptr':
                    default = 'NULL'
                p.i = len(p.toks)
            if not p.at_end():
                raise ExtractError('parameter not understood: ' + ' '.join(t.text for t in g))
            byref = is_ref
            if is_ref and is_const and (is_civil(ty) or ty in self.ctx.value_ref_types):
                byref = False   # small value types: const T& passed by value
                fire('R8v')
            params.append(Param(name, ty, byref=byref, const=is_const, default=default))
        return params, tag

    def parse_ret(self, head, fname):
        """return type from the head text preceding the function name"""
        h = head
        h = re.sub(r'\b(CONSTEXPR_F|CONSTEXPR_M|constexpr|inline|static|friend|explicit|virtual)\b', lambda m: (fire('R1'), '')[1], h)
        h = h.strip()
        # drop the (qualified) function name at the end
        h = re.sub(r'((\w+::)*)' + re.escape(fname) + r'\s*$', '', h).strip()
        if h == '' or h == 'auto':
            return None
        p = Parser(tokenize(h), self.ctx, {})
        ty, is_ref, _, _ = p.parse_type()
        if not p.at_end():
            raise ExtractError('return type not understood: ' + h)
        if is_ref:
            raise ExtractError('reference return type not in subset: ' + h)
        return ty

    def add_sig(self, key, sig):
        self.ctx.funcs.setdefault(key, []).append(sig)

    def function(self, rel, name, cname=None, head_re=None, method_of=None, const_method=None, key=None,
                 ret=None, within=None, template_T=None):
        """Register a free function / out-of-class method definition for extraction."""
        s = self.src(rel)
        if head_re is None:
            if method_of:
                head_re = r'[\w:<>\s\*&]*?\b%s::%s\s*(?=\()' % (method_of, name)
                head_re = r'(?:^|(?<=[;}\n]))[ \t]*[\w:<>\*& \t\n]*?\b%s::%s\s*(?=\()' % (method_of, name)
            else:
                head_re = r'(?:^|(?<=[;}\n]))[ \t]*(?:template\s*<[^>]*>\s*)?[\w:<>\*& \t\n]*?\b%s\s*(?=\()' % name
        d = s.find_one(head_re, within, what=name)
        return self._register(rel, s, d, name, cname, method_of, key, ret, template_T)

    def functions_overloaded(self, rel, name, namer, head_re=None, method_of=None, expect=None):
        """All overloads of `name`; namer(params, tag, d) -> cname."""
        s = self.src(rel)
        if head_re is None:
            if method_of:
                head_re = r'(?:^|(?<=[;}\n]))[ \t]*[\w:<>\*& \t\n]*?\b%s::%s\s*(?=\()' % (method_of, name)
            else:
                head_re = r'(?:^|(?<=[;}\n]))[ \t]*[\w:<>\*& \t\n]*?\b%s\s*(?=\()' % name
        ds = s.find_defs(head_re)
        if expect is not None and len(ds) != expect:
            raise ExtractError('%s: expected %d overloads in %s, found %d' % (name, expect, rel, len(ds)))
        out = []
        for d in ds:
            params, tag = self.parse_params(d['params'])
            cname = namer(params, tag, d)
            out.append(self._register(rel, s, d, name, cname, method_of, None, None, None, pre=(params, tag)))
        return out

    def _register(self, rel, s, d, name, cname, method_of, key, ret, template_T, pre=None):
        saveT = self.ctx.template_T
        self.ctx.template_T = template_T
        try:
            params, tag = pre if pre else self.parse_params(d['params'])
            rty = ret if ret is not None else self.parse_ret(d['head'], name)
        finally:
            self.ctx.template_T = saveT
        cname = cname or name
        const_m = bool(re.search(r'\bconst\b', d['trailer']))
        sig = FuncSig(name, cname, rty, params, is_method=bool(method_of), const_method=const_m, tagdispatch=tag)
        self.add_sig(key or name, sig)
        self.span(rel, cname, s.text[d['start']:d['end']])
        self.pending.append(dict(sig=sig, d=d, rel=rel, method_of=method_of, template_T=template_T))
        self.report['functions'].append(dict(cname=cname, cxx=name, file=rel))
        return sig

    def c_signature(self, sig, method_of):
        em = cxx2c.Emitter(self.ctx, {})
        ps = []
        if sig.is_method:
            ps.append('%s%s* self' % ('const ' if sig.const_method else '', method_of))
        for p in sig.params:
            cty = em.ctype(p.typ)
            if p.byref:
                ps.append('%s%s* %s' % ('const ' if p.const else '', cty, p.name))
            else:
                ps.append('%s %s' % (cty, p.name or '_unused'))
        return '%s %s(%s)' % (em.ctype(sig.ret) if sig.ret else 'void', sig.cname, ', '.join(ps) if ps else 'void')

    def translate_all(self):
        for it in self.pending:
            sig, d = it['sig'], it['d']
            self.ctx.template_T = it['template_T']
            self.ctx.method_class = it['method_of']
            body = d['body']
            if d['init'] is not None:
                # delegating / member-init constructor:  ": civil_time(E) {}"  ->  "{ return civil_time(E); }"
                nm, br, args = d['init']
                if body.strip('{} \n\t') != '':
                    raise ExtractError('constructor with init list and non-empty body: ' + sig.cname)
                fire('R9c')
                if nm == 'f_' and br == '{':
                    body = '{ return fields{%s}; }' % args
                elif nm == 'f_':
                    body = '{ return %s; }' % args
                else:
                    body = '{ return %s(%s); }' % (nm, args)
            ft = FuncTranslator(self.ctx, sig, tokenize(body), extra_scope=self.extra_scope.get(sig.cname))
            try:
                ctext = ft.translate(self.loop_contracts.get(sig.cname), self.pre_loop.get(sig.cname), self.stmt_hooks.get(sig.cname))
            except ExtractError as e:
                raise ExtractError('%s: %s' % (sig.cname, e))
            self.report['loops'][sig.cname] = ft.loop_no
            lc = self.loop_contracts.get(sig.cname, {})
            for n_, txt in lc.items():
                # only opaque specification functions may be called inside a loop contract
                for call in re.findall(r'\b([A-Za-z_]\w*)\s*\(', re.sub(r'__CPROVER_(loop_invariant|assigns|decreases|loop_entry|same_object|POINTER_OFFSET)', '', txt)):
                    if not call.startswith('__CPROVER_uninterpreted_') and not call.isupper() and call not in ('LIFT_E', 'LIFT_R', 'sizeof') and not re.match(r'^[A-Z][A-Z0-9_]*$', call):
                        raise ExtractError('%s: loop contract %d calls %s (only macros and opaque specification functions are allowed)' % (sig.cname, n_, call))
            for n_ in lc:
                if n_ > ft.loop_no:
                    raise ExtractError('%s: loop contract for loop %d but only %d loops found' % (sig.cname, n_, ft.loop_no))
            csig = self.c_signature(sig, it['method_of'])
            self.proto_text.append(csig + ';')
            self.func_text.append('/* extracted from %s */\n%s\n%s' % (it['rel'], csig, ctext))
        self.ctx.template_T = None
        self.ctx.method_class = None

    def write(self, outdir):
        os.makedirs(outdir, exist_ok=True)
        parts = []
        parts.append('/* GENERATED by /verif/tools/extract.py from the working tree of the repository - do not edit */')
        parts.append('#include <stdint.h>\n#include <stddef.h>\n#include <stdbool.h>\n#include <limits.h>\n#include <string.h>\n#include <stdio.h>')
        parts.append('#include "%s"' % os.path.join(VERIF, 'stubs', 'prelude.h'))
        for inc in self.extra_includes:
            parts.append('#include "%s"' % inc)
        parts.extend(self.type_text)
        parts.append('/* ---- prototypes of extracted functions ---- */')
        parts.extend(self.proto_text)
        if self.contracts_header:
            parts.append('#if defined(VERIF_CBMC) && !defined(NO_CONTRACTS)')
            parts.append('#include "%s"' % self.contracts_header)
            parts.append('#endif')
        parts.append('/* ---- extracted function definitions ---- */')
        parts.extend(self.func_text)
        # one mechanical harness per extracted function: every parameter nondeterministic
        parts.append('#if defined(VERIF_CBMC) && !defined(NO_HARNESS)')
        for it in self.pending:
            sig = it['sig']
            em = cxx2c.Emitter(self.ctx, {})
            decls = []
            args = []
            if sig.is_method:
                decls.append('%s%s* self;' % ('const ' if sig.const_method else '', it['method_of']))
                args.append('self')
            for i, p in enumerate(sig.params):
                cty = em.ctype(p.typ)
                nm = 'a%d' % i
                if p.byref:
                    decls.append('%s%s* %s;' % ('const ' if p.const else '', cty, nm))
                else:
                    decls.append('%s %s;' % (cty, nm))
                args.append(nm)
            parts.append('void h_%s(void) { %s %s(%s); }' % (sig.cname, ' '.join(decls), sig.cname, ', '.join(args)))
        parts.append('#endif')
        for h in self.harness_files:
            parts.append('#if defined(VERIF_CBMC) && !defined(NO_HARNESS)')
            parts.append('#include "%s"' % h)
            parts.append('#endif')
        cfile = os.path.join(outdir, self.name + '.c')
        open(cfile, 'w').write('\n'.join(parts) + '\n')
        self.report['rules'] = dict(RULES)
        json.dump(self.report, open(os.path.join(outdir, self.name + '.extract.json'), 'w'), indent=1)
        return cfile


def load_unit(name):
    path = os.path.join(VERIF, 'units', name + '.py')
    spec = importlib.util.spec_from_file_location('unit_' + name, path)
    mod = importlib.util.module_from_spec(spec)
    spec.loader.exec_module(mod)
    return mod


def run(name, repo, outdir):
    RULES.clear()
    mod = load_unit(name)
    u = Unit(name, repo)
    mod.build(u)
    u.translate_all()
    # must-fire policy
    for rule, minimum in getattr(mod, 'MUST_FIRE', {}).items():
        if RULES.get(rule, 0) < minimum:
            raise ExtractError('rule %s fired %d times, expected >= %d' % (rule, RULES.get(rule, 0), minimum))
    for fn, nloops in getattr(mod, 'EXPECTED_LOOPS', {}).items():
        got = u.report['loops'].get(fn)
        if got != nloops:
            raise ExtractError('%s: %s loops found, contracts written for %d' % (fn, got, nloops))
    return u.write(outdir)


def main():
    if len(sys.argv) != 4:
        print(__doc__)
        sys.exit(2)
    try:
        c = run(sys.argv[1], sys.argv[2], sys.argv[3])
        print(c)
    except ExtractError as e:
        print('EXTRACTION-BROKE: %s' % e)
        sys.exit(2)


if __name__ == '__main__':
    main()
