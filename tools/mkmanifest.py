#!/usr/bin/env python3
"""Regenerates /verif/MANIFEST.json from units/props.py (claimed properties) + the fixed not_applicable list."""
import os, sys, json
VERIF = os.path.dirname(os.path.dirname(os.path.abspath(__file__)))
sys.path.insert(0, os.path.join(VERIF, 'tools')); sys.path.insert(0, os.path.join(VERIF, 'units'))
import props as P

NA = {
    'C13': 'quantifier over thread schedules: CBMC cannot parse the C++ translation unit, has no model of libstdc++ mutex/atomics/function-local statics; a rewritten C model would be a different technique family (DESIGN.md section 5)',
    'C19': 'every clause is about getenv/fopen/the file system under different process environments - external functions only; a contract could only restate what they are assumed to return (DESIGN.md section 5)',
    'C20': 'schedules x histories across std::mutex critical sections of LoadTimeZone; same obstacle as C13. Reading shows the property is violated (finding D3, DESIGN.md section 7) but this family cannot exhibit the interleaving',
}
allids = [json.loads(l)['id'] for l in open(os.path.join(VERIF, 'properties.jsonl'))]
checks = []
for pid in allids:
    if pid in P.PROPERTIES:
        sp = P.PROPERTIES[pid]
        checks.append(dict(
            property_id=pid,
            quick_cmd='bin/check %s --tier quick' % pid,
            thorough_cmd='bin/check %s --tier thorough' % pid,
            evidence_file='evidence/%s.json' % pid,
            replay_cmd_template='bin/check %s --replay {path}' % pid,
            engine='cbmc-contracts',
            level_claimed=dict(category='proof', text=sp['level_text'], design_ref=sp.get('design_ref', 'DESIGN.md section 5')),
            level_note=sp['level_note'],
            technique=sp.get('technique', 'contract-based deductive verification: CBMC 6.11 function/loop contracts (goto-instrument --dfcc) on C extracted mechanically from the C++ source on every run'),
        ))
na = []
for pid in allids:
    if pid not in P.PROPERTIES:
        na.append(dict(property_id=pid, reason=NA.get(pid, P.NOT_YET.get(pid, 'not claimed: contracts for the functions this property depends on are not yet discharged (see DESIGN.md)'))))
man = dict(
    version=1,
    setup_cmd='python3 tools/setup.py',
    hooks=dict(guard='GOOGLE_CCTZ_VERIF', enable='no hook is needed by the proofs (contracts are spliced into the extracted C, /repo is not annotated)',
               baseline_off_cmd='bash tools/baseline_off.sh', source_commits=[], add_only=True),
    engines=[dict(name='cbmc-contracts', path='bin/check', serves_properties=sorted(P.PROPERTIES),
                  kind_free_text='extract.py (C++ subset -> C, every run) + goto-cc + goto-instrument --dfcc + cbmc per obligation; cadical / cvc5 / cvc5 int-blasting raced')],
    checks=checks,
    not_applicable=na,
    notes='exit 0 = all obligations discharged; exit 1 = VIOLATION line; exit 2 = undecided (never a verdict). See DESIGN.md.',
)
json.dump(man, open(os.path.join(VERIF, 'MANIFEST.json'), 'w'), indent=1)
print('claimed', sorted(P.PROPERTIES), 'not_applicable', [x['property_id'] for x in na])
