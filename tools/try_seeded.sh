#!/bin/bash
# try_seeded.sh <seeded-id> <property> : apply a seeded change to /repo, run the property's quick check, undo.
S=/verif/seeded/$1; P=$2
git -C /repo apply $S/patch.diff || { echo "APPLY-FAILED $1"; exit 3; }
timeout 3000 /verif/bin/check $P > /tmp/seed.$1.$P.out 2> /tmp/seed.$1.$P.err; rc=$?
git -C /repo checkout -- .
echo "$1 $P exit=$rc"; grep -E "VIOLATION|UNDECIDED|obligations discharged" /tmp/seed.$1.$P.out | cut -c1-220 | head -8
