#!/bin/bash
# Runs the repository's test suite with the verification guard OFF (there is no guarded code: the guard is never defined).
set -e
B=$(mktemp -d /tmp/cctz-baseline-XXXXXX)
trap 'rm -rf "$B"' EXIT
cmake -G Ninja -S /repo -B "$B" -DCMAKE_BUILD_TYPE=RelWithDebInfo -DCMAKE_CXX_FLAGS=-Wno-error -DBUILD_BENCHMARK=OFF -DBUILD_EXAMPLES=OFF -DBUILD_TOOLS=OFF >/dev/null
cmake --build "$B" -j8 >/dev/null
ctest --test-dir "$B" -j8 --timeout 900
