#!/usr/bin/env python3
"""
Native replay of a CBMC counterexample against the REAL cctz code.

A replay file (written by tools/report.py) names the goal (function under contract), the failed
obligation and the values the harness parameters had in the counterexample.  replay builds a small
C++ program that calls the real function from /repo (header-only ones directly; anonymous-namespace
ones by #including the real .cc) with those values and evaluates the function's contract clauses -
taken textually from /verif/contracts/<unit>.h - natively (spec arithmetic in __int128; overflow
obligations under UBSan).  Exit 0 = real code satisfies the contract on this input, 1 = real code
violates it (the violation is confirmed), 3 = cannot replay.
"""
import os
import re
import sys
import json
import shutil
import subprocess
import tempfile

HERE = os.path.dirname(os.path.abspath(__file__))
VERIF = os.path.dirname(HERE)
REPO = os.environ.get('VERIF_REPO', '/repo')
sys.path.insert(0, os.path.join(VERIF, 'units'))


def contract_of(header, fname):
    """-> (params [(type, name)], requires [text], ensures [text])"""
    txt = open(header).read()
    txt = re.sub(r'/\*.*?\*/', ' ', txt, flags=re.S)
    m = re.search(r'^[\w \*]+?\b%s\s*\(([^;{}]*?)\)\s*((?:__CPROVER_\w+\s*\((?:[^()]|\((?:[^()]|\((?:[^()]|\((?:[^()]|\([^()]*\))*\))*\))*\))*\)\s*)+);' % re.escape(fname),
                  txt, flags=re.M)
    if not m:
        return None
    params = []
    for p in m.group(1).split(','):
        p = p.strip()
        if not p or p == 'void':
            continue
        mm = re.match(r'(.*?)(\w+)$', p)
        params.append((mm.group(1).strip(), mm.group(2)))
    req, ens = [], []
    body = m.group(2)
    i = 0
    while True:
        mm = re.search(r'__CPROVER_(requires|ensures|assigns)\s*\(', body[i:])
        if not mm:
            break
        start = i + mm.end()
        depth = 1
        j = start
        while depth:
            if body[j] == '(':
                depth += 1
            elif body[j] == ')':
                depth -= 1
            j += 1
        clause = body[start:j - 1]
        if mm.group(1) == 'requires':
            req.append(clause)
        elif mm.group(1) == 'ensures':
            ens.append(clause)
        i = j
    return params, req, ens


def defines_of(header):
    """all #define lines (with continuations) of a contracts header"""
    out = []
    lines = open(header).read().split('\n')
    i = 0
    while i < len(lines):
        ln = lines[i]
        if ln.lstrip().startswith('#define'):
            blk = ln
            while blk.endswith('\\') and i + 1 < len(lines):
                i += 1
                blk += '\n' + lines[i]
            out.append(blk)
        i += 1
    return '\n'.join(out)


def cval(v, ctype):
    """C++ literal for a CBMC trace value"""
    if isinstance(v, dict):
        return '{' + ', '.join(str(cval(x, None)) for k, x in v.items() if '$pad' not in k) + '}'
    if v is None:
        return '0'
    s = str(v)
    s = re.sub(r'^(-?\d+)[uUlL]+$', r'\1', s)
    s = re.sub(r'^/\*enum\*/', '', s)
    if re.match(r'^[A-Za-z_]\w*$', s) and s not in ('TRUE', 'FALSE', 'true', 'false'):
        return s      # enum constant
    if s in ('TRUE', 'true'):
        return '1'
    if s in ('FALSE', 'false'):
        return '0'
    if re.match(r'^-?\d+$', s):
        n = int(s)
        if n == -(1 << 63):
            return '(-9223372036854775807LL - 1)'
        if abs(n) >= (1 << 31):
            return '%dLL' % n
        return str(n)
    m = re.match(r"^'(.*)'$", s)
    if m:
        return s
    return None


def try_replay(path, verbose=False):
    js = json.load(open(path))
    unit = js.get('unit')
    fname = js.get('enforce')
    if not fname:
        return False
    try:
        import importlib
        bind = importlib.import_module('bind_' + unit)
    except Exception:
        return False
    if fname not in bind.BIND:
        return False
    header = os.path.join(VERIF, 'contracts', unit + '.h')
    c = contract_of(header, fname)
    if not c:
        return False
    params, req, ens = c
    inputs = js.get('inputs', {})
    args = []
    pre_decls = []
    memory = inputs.get('memory', {})
    pointers = inputs.get('pointers', {})
    for i, (ty, nm) in enumerate(params):
        if ty.rstrip().endswith('*'):
            # pointer parameter: rebuild the object __CPROVER_is_fresh allocated for it in the counterexample
            obj = pointers.get(nm) or pointers.get(nm + '_wrapper')
            if obj is None or obj not in memory:
                return False
            base = ty.replace('const ', '').rstrip().rstrip('*').strip()
            paths = memory[obj]
            var = nm + '_obj'
            idx = [int(m.group(1)) for pth in paths for m in [re.match(r'^\[(\d+)l?\]$', pth)] if m]
            if idx:
                pre_decls.append('  static %s %s[%d];' % (base, var, max(idx) + 1))
            else:
                pre_decls.append('  static %s %s;' % (base, var))
            for pth, val in paths.items():
                if val is None:
                    continue
                lit = cval(val, None)
                if lit is None or pth.endswith('$pad') or '$pad' in pth:
                    continue
                pth2 = re.sub(r'\[(\d+)l\]', r'[\1]', pth)
                pth2 = re.sub(r'\$anon\d+\.', '', pth2)      # anonymous union members
                pre_decls.append('  %s%s = %s;' % (var, pth2, lit))
            args.append((ty, nm, ('%s' % var) if idx else ('&%s' % var)))
            continue
        v = inputs.get('a%d' % i)
        lit = cval(v, ty)
        if lit is None:
            return False
        args.append((ty, nm, lit))
    b = bind.BIND[fname]
    src = []
    src.append(bind.PRELUDE)
    src.append('#define __CPROVER_return_value rv_')
    src.append('#include "%s"' % os.path.join(VERIF, 'spec', 'gregorian.h'))
    src.append(defines_of(header))
    src.append(getattr(bind, 'NATIVE_OPAQUE', ''))
    src.append('int main() {')
    src.extend(pre_decls)
    for ty, nm, lit in args:
        src.append('  %s %s = %s;' % (ty, nm, lit))
    src.append('  bool req_ = true;')
    for r in req:
        src.append('  req_ = req_ && (%s);' % r)
    src.append('  if (!req_) { std::puts("PRECONDITION-NOT-MET"); return 3; }')
    src.append('  std::printf("calling real %s\\n"); std::fflush(stdout);' % fname)
    call = b['call']
    if b.get('pre'):
        src.append('  ' + b['pre'])
    src.append('  auto rv_ = %s;' % call)
    src.append('  int bad = 0;')
    for k, e in enumerate(ens):
        src.append('  if (!(%s)) { std::printf("POSTCONDITION %d VIOLATED by the real code\\n"); bad = 1; }' % (e, k + 1))
    src.append('  ' + b.get('show', ''))
    src.append('  std::puts(bad ? "REAL-CODE-VIOLATES-CONTRACT" : "real code satisfies the contract on this input");')
    src.append('  return bad;')
    src.append('}')
    d = tempfile.mkdtemp(prefix='replay-', dir=os.path.join(VERIF, 'build') if os.path.isdir(os.path.join(VERIF, 'build')) else None)
    try:
        cc = os.path.join(d, 'r.cc')
        open(cc, 'w').write('\n'.join(src))
        exe = os.path.join(d, 'r')
        cmd = ['g++', '-std=c++17', '-O0', '-w', '-fsanitize=undefined', '-fno-sanitize-recover=all',
               '-I' + os.path.join(REPO, 'include'), '-I' + os.path.join(REPO, 'src'), cc, '-o', exe] + bind.EXTRA_SOURCES(REPO)
        p = subprocess.run(cmd, capture_output=True, text=True, timeout=300)
        if p.returncode != 0:
            if verbose:
                print(p.stderr[-3000:])
            return False
        try:
            r = subprocess.run([exe], capture_output=True, text=True, timeout=20)
            out = r.stdout + r.stderr
            rcx = r.returncode
        except subprocess.TimeoutExpired:
            out = 'TIMEOUT: the real code did not return within 20 s'
            rcx = 124
        js['native_replay'] = dict(output=out[-3000:], exit=rcx, program=os.path.basename(cc))
        js['native_program'] = '\n'.join(src)
        json.dump(js, open(path, 'w'), indent=1, default=str)
        if verbose:
            print(out)
        if 'PRECONDITION-NOT-MET' in out:
            return False
        return rcx != 0
    finally:
        shutil.rmtree(d, ignore_errors=True)


def replay_file(path):
    ok = try_replay(path, verbose=True)
    js = json.load(open(path))
    print('obligation:', js.get('obligation'), '-', js.get('description'))
    if ok:
        print('replay: the real code violates the contract on the recorded input')
        return 1
    print('replay: not confirmed natively (see native_replay / verifier_output in the file)')
    return 0


if __name__ == '__main__':
    sys.exit(replay_file(sys.argv[1]))
