#!/usr/bin/env python3
"""
cxx2c: mechanical translation of the C++ subset used by the cctz functions under
contract into C that CBMC's C front end accepts.

It is a *spelling* translator: tokenise, parse statements/expressions of the extracted
function, infer just enough types to (a) resolve overloaded operators on civil_time<T>
into calls of the extracted operator functions, (b) resolve tag/type overloads, (c) turn
references into pointers, and print the same statements in the same order.  Anything it
does not understand raises ExtractError (-> exit 2 "extraction broke", never a verdict).

Every rewrite is counted under a rule id (R1..R17 of DESIGN.md section 2.1) in RULES.
"""
import re
import collections

RULES = collections.Counter()

# spec / ghost text is 128-bit specification arithmetic: its own overflow checks are switched off
# (listed as an assumption: magnitudes stay below 2^100 for int64 inputs); checks in the extracted
# code are untouched.
SPEC_PUSH = '#ifdef VERIF_CBMC /* ghost */\n#pragma CPROVER check push\n#pragma CPROVER check disable "signed-overflow"\n#pragma CPROVER check disable "conversion"\n#pragma CPROVER check disable "pointer"\n#pragma CPROVER check disable "pointer-primitive"\n#pragma CPROVER check disable "pointer-overflow"\n#pragma CPROVER check disable "bounds"\n'
SPEC_POP = '#pragma CPROVER check pop\n#endif\n'


class ExtractError(Exception):
    pass


def fire(rule, n=1):
    RULES[rule] += n


# --------------------------------------------------------------------------- tokens
TOKEN_RE = re.compile(r"""
    (?P<ws>\s+)
  | (?P<num>0[xX][0-9a-fA-F]+[uUlL]*|\d+\.\d*(?:[eE][-+]?\d+)?[fFlL]?|\d+[uUlL]*)
  | (?P<id>[A-Za-z_]\w*)
  | (?P<str>"(?:\\.|[^"\\])*")
  | (?P<chr>'(?:\\.|[^'\\])*')
  | (?P<op><<=|>>=|\.\.\.|->|\+\+|--|<<|>>|<=|>=|==|!=|&&|\|\||\+=|-=|\*=|/=|%=|&=|\|=|\^=|::|[-+*/%<>=!&|^~?:;,.(){}\[\]#])
""", re.X)


def strip_comments(text):
    out = []
    i = 0
    n = len(text)
    while i < n:
        c = text[i]
        if c == '"' or c == "'":
            j = i + 1
            while j < n and text[j] != c:
                if text[j] == '\\':
                    j += 1
                j += 1
            out.append(text[i:j + 1])
            i = j + 1
        elif text.startswith('//', i):
            j = text.find('\n', i)
            if j < 0:
                j = n
            i = j
        elif text.startswith('/*', i):
            j = text.find('*/', i + 2)
            out.append(' ')
            i = j + 2
        else:
            out.append(c)
            i += 1
    return ''.join(out)


Tok = collections.namedtuple('Tok', 'kind text')


def tokenize(text):
    toks = []
    pos = 0
    while pos < len(text):
        m = TOKEN_RE.match(text, pos)
        if not m:
            raise ExtractError('cannot tokenise at: %r' % text[pos:pos + 40])
        pos = m.end()
        k = m.lastgroup
        if k == 'ws':
            continue
        toks.append(Tok(k, m.group()))
    return toks


# --------------------------------------------------------------------------- types
# A type is a string.  Pointer types end in '*'.  'civil:<tag>' are civil_time<tag>.
CIVIL_ALIASES = {
    'civil_second': 'second', 'civil_minute': 'minute', 'civil_hour': 'hour',
    'civil_day': 'day', 'civil_month': 'month', 'civil_year': 'year',
}
TAGS = ['second', 'minute', 'hour', 'day', 'month', 'year']

INT_TYPES = {
    'int', 'long', 'char', 'bool', 'short', 'unsigned', 'signed', 'size_t', 'year_t', 'diff_t',
    'month_t', 'day_t', 'hour_t', 'minute_t', 'second_t', 'int64_t', 'int32_t', 'int16_t',
    'int8_t', 'uint64_t', 'uint32_t', 'uint16_t', 'uint8_t', 'ptrdiff_t',
}
for _w in ('8', '16', '32', '64'):
    for _p in ('int_fast', 'int_least', 'uint_fast', 'uint_least'):
        INT_TYPES.add('%s%s_t' % (_p, _w))


def is_civil(t):
    return isinstance(t, str) and t.startswith('civil:')


def civil_tag(t):
    return t.split(':', 1)[1]


class Ctx:
    """Translation context shared by a unit."""

    def __init__(self):
        self.typedefs = {}         # name -> C type (scalar typedefs)
        self.structs = {}          # struct name -> {member: type}
        self.funcs = {}            # C++ name -> list of FuncSig (overloads)
        self.type_names = set(INT_TYPES) | {'void', 'double', 'float', 'auto', 'const', 'static', 'unsigned', 'struct'}
        self.enum_consts = {}      # 'weekday::monday' -> 'weekday_monday'
        self.self_members = {}     # member name -> type (for methods)
        self.template_T = None     # current tag for civil_time<T> members
        self.value_ref_types = {'fields', 'time_point_s', 'seconds_t'}  # const T& passed by value
        self.method_class = None
        self.stub_methods = {}     # (recv type, method) -> (cname, ret type, pass_recv_ptr)
        self.free_stubs = {}       # 'std::upper_bound' etc -> handler
        self.const_exprs = {}      # qualified constant spelling -> (C text, type)
        self.site_rules = []

    def add_struct(self, name, members):
        self.structs[name] = members
        self.type_names.add(name)


class FuncSig:
    def __init__(self, cxxname, cname, ret, params, is_method=False, const_method=False, tagdispatch=None):
        self.cxxname = cxxname
        self.cname = cname
        self.ret = ret                # type string
        self.params = params          # list of Param
        self.is_method = is_method
        self.const_method = const_method
        self.tagdispatch = tagdispatch


class Param:
    def __init__(self, name, typ, byref=False, const=False, default=None):
        self.name = name
        self.typ = typ        # type as seen by the body (without the reference)
        self.byref = byref    # passed as pointer in C
        self.const = const
        self.default = default  # token list of default value


# --------------------------------------------------------------------------- parser
BINPREC = {
    '*': 13, '/': 13, '%': 13,
    '+': 12, '-': 12,
    '<<': 11, '>>': 11,
    '<': 10, '<=': 10, '>': 10, '>=': 10,
    '==': 9, '!=': 9,
    '&': 8, '^': 7, '|': 6, '&&': 5, '||': 4,
}
ASSIGN_OPS = {'=', '+=', '-=', '*=', '/=', '%=', '&=', '|=', '^=', '<<=', '>>='}
CAST_KW = {'static_cast', 'reinterpret_cast', 'const_cast'}


class Node:
    __slots__ = ('k', 'a', 't')

    def __init__(self, k, *a):
        self.k = k
        self.a = list(a)
        self.t = None

    def __repr__(self):
        return 'Node(%s,%r)' % (self.k, self.a)


class Parser:
    def __init__(self, toks, ctx, scope):
        self.toks = toks
        self.i = 0
        self.ctx = ctx
        self.scope = scope  # ChainMap name -> (type, is_ref)

    # -- helpers
    def peek(self, k=0):
        j = self.i + k
        return self.toks[j] if j < len(self.toks) else Tok('eof', '')

    def next(self):
        t = self.peek()
        self.i += 1
        return t

    def accept(self, text):
        if self.peek().text == text:
            self.i += 1
            return True
        return False

    def expect(self, text):
        if not self.accept(text):
            raise ExtractError('expected %r, got %r near %s' % (text, self.peek().text, self.context()))

    def context(self):
        return ' '.join(t.text for t in self.toks[max(0, self.i - 8):self.i + 8])

    def at_end(self):
        return self.i >= len(self.toks)

    # -- types
    def looks_like_type(self, k=0):
        t = self.peek(k)
        if t.kind != 'id':
            return False
        if t.text in ('const', 'unsigned', 'signed', 'struct', 'static', 'constexpr', 'CONSTEXPR_D', 'volatile', 'typename'):
            return True
        if t.text == 'std' and self.peek(k + 1).text == '::':
            nm = self.peek(k + 2).text
            return nm in self.ctx.type_names or nm in ('string', 'vector', 'size_t', 'chrono', 'atomic', 'pair') or nm.endswith('_t')
        if t.text == 'time_zone' and self.peek(k + 1).text == '::':
            return self.peek(k + 2).text in self.ctx.type_names and self.peek(k + 3).text != '::'
        if t.text in ('PosixTransition', 'Transition') and self.peek(k + 1).text == '::':
            return ('%s::%s' % (t.text, self.peek(k + 2).text)) in self.ctx.type_names
        return t.text in self.ctx.type_names or t.text in CIVIL_ALIASES or t.text in ('civil_time', 'time_point', 'seconds')

    def parse_type(self):
        """Parse a type specifier (+ pointer/ref declarator prefix). Returns (type, is_ref, is_const, is_static)."""
        is_const = False
        is_static = False
        words = []
        while True:
            t = self.peek()
            if t.text in ('const', 'constexpr', 'CONSTEXPR_D'):
                if t.text != 'const':
                    fire('R1')
                    is_static = True
                is_const = True
                self.next()
            elif t.text in ('static',):
                is_static = True
                self.next()
            elif t.text in ('volatile', 'typename', 'mutable', 'inline'):
                self.next()
            else:
                break
        t = self.peek()
        base = None
        if t.text == 'std' and self.peek(1).text == '::':
            self.next(); self.next()
            fire('R2')
            nm = self.next().text
            if nm == 'string':
                base = 'vstr'
            elif nm == 'vector':
                self.expect('<')
                inner, _, _, _ = self.parse_type()
                self.expect('>')
                base = 'vec_' + inner
            elif nm == 'atomic':
                self.expect('<')
                inner, _, _, _ = self.parse_type()
                self.expect('>')
                base = 'atomic_' + inner.replace(' ', '_')
            elif nm == 'chrono':
                self.expect('::')
                base = 'chrono_' + self.next().text
            else:
                base = nm
        elif t.text in ('unsigned', 'signed', 'long', 'short', 'int', 'char'):
            while self.peek().text in ('unsigned', 'signed', 'long', 'short', 'int', 'char'):
                words.append(self.next().text)
            base = ' '.join(words)
        elif t.text == 'struct':
            self.next()
            base = self.next().text
        elif t.text in CIVIL_ALIASES:
            self.next()
            base = 'civil:' + CIVIL_ALIASES[t.text]
        elif t.text == 'civil_time':
            self.next()
            if self.accept('<'):
                tg = self.next().text
                self.expect('>')
                tag = tg[:-4] if tg.endswith('_tag') else (self.ctx.template_T if tg in ('T', 'U', 'T1', 'T2') else None)
                if tag is None:
                    raise ExtractError('civil_time<%s>' % tg)
                base = 'civil:' + tag
            else:
                base = 'civil:' + self.ctx.template_T
        elif t.text == 'time_point':
            self.next()
            self.expect('<'); self.expect('seconds'); self.expect('>')
            base = 'time_point_s'
        elif t.text == 'seconds':
            self.next()
            base = 'seconds_t'
        elif t.text == 'time_zone' and self.peek(1).text == '::':
            self.next(); self.next()
            fire('R2')
            base = self.next().text
        elif t.text in ('PosixTransition', 'Transition') and self.peek(1).text == '::' and ('%s::%s' % (t.text, self.peek(2).text)) in self.ctx.type_names:
            self.next(); self.next()
            fire('R2')
            base = t.text + '_' + self.next().text
        elif t.kind == 'id' and (t.text in self.ctx.type_names):
            self.next()
            base = t.text
        else:
            raise ExtractError('not a type: %r near %s' % (t.text, self.context()))
        while self.peek().text == 'const':
            self.next()
            is_const = True
        is_ref = False
        while True:
            if self.accept('*'):
                if is_const and not base.startswith('const ') and not base.endswith('*'):
                    base = 'const ' + base      # pointer to const
                base += '*'
                while self.accept('const'):
                    pass
            elif self.accept('&'):
                is_ref = True
                fire('R8')
            else:
                break
        return base, is_ref, is_const, is_static

    # -- expressions
    def parse_expr(self):
        e = self.parse_assign()
        while self.peek().text == ',':
            self.next()
            r = self.parse_assign()
            e = Node('comma', e, r)
        return e

    def parse_assign(self):
        lhs = self.parse_ternary()
        t = self.peek()
        if t.text in ASSIGN_OPS:
            self.next()
            rhs = self.parse_assign()
            return Node('assign', t.text, lhs, rhs)
        return lhs

    def parse_ternary(self):
        c = self.parse_bin(0)
        if self.accept('?'):
            a = self.parse_assign()
            self.expect(':')
            b = self.parse_assign()
            return Node('ternary', c, a, b)
        return c

    def parse_bin(self, minprec):
        lhs = self.parse_unary()
        while True:
            t = self.peek()
            p = BINPREC.get(t.text) if t.kind == 'op' else None
            if p is None or p < minprec:
                return lhs
            self.next()
            rhs = self.parse_bin(p + 1)
            lhs = Node('bin', t.text, lhs, rhs)

    def parse_unary(self):
        t = self.peek()
        if t.kind == 'op' and t.text in ('-', '+', '!', '~', '*', '&', '++', '--'):
            self.next()
            e = self.parse_unary()
            return Node('prefix', t.text, e)
        if t.text == 'sizeof':
            self.next()
            self.expect('(')
            if self.looks_like_type():
                ty, _, _, _ = self.parse_type()
                self.expect(')')
                return Node('sizeof_t', ty)
            e = self.parse_expr()
            self.expect(')')
            return Node('sizeof_e', e)
        # C-style cast?  ( type ) unary   -- not used by cctz; reject to stay safe
        return self.parse_postfix()

    def parse_args(self, close=')'):
        args = []
        if self.accept(close):
            return args
        while True:
            if self.peek().text == '{':
                args.append(self.parse_brace())
            else:
                args.append(self.parse_assign())
            if self.accept(close):
                return args
            self.expect(',')

    def parse_brace(self):
        self.expect('{')
        items = []
        if self.accept('}'):
            return Node('brace', *items)
        while True:
            if self.peek().text == '{':
                items.append(self.parse_brace())
            else:
                items.append(self.parse_assign())
            if self.accept('}'):
                break
            self.expect(',')
            if self.accept('}'):
                break
        return Node('brace', *items)

    def parse_primary(self):
        t = self.peek()
        if t.kind == 'num':
            self.next()
            return Node('num', t.text)
        if t.kind == 'str':
            self.next()
            s = t.text
            while self.peek().kind == 'str':
                s += ' ' + self.next().text
            return Node('str', s)
        if t.kind == 'chr':
            self.next()
            return Node('chr', t.text)
        if t.text == '(':
            # "(std::numeric_limits<T>::max)()" style or parenthesised expr
            self.next()
            e = self.parse_expr()
            self.expect(')')
            return Node('paren', e)
        if t.text == '[':
            raise ExtractError('lambda expression is outside the translated subset: ' + self.context())
        if t.text == '{':
            return self.parse_brace()
        if t.kind == 'id':
            if t.text in CAST_KW:
                self.next()
                fire('R3')
                self.expect('<')
                ty, _, _, _ = self.parse_type()
                self.expect('>')
                self.expect('(')
                e = self.parse_expr()
                self.expect(')')
                return Node('cast', ty, e)
            if t.text in ('nullptr',):
                self.next(); fire('R4')
                return Node('id', 'NULL')
            if t.text in ('true', 'false'):
                self.next()
                return Node('num', t.text)
            if t.text == 'this':
                self.next()
                return Node('id', 'self')
            # qualified names / type constructions
            return self.parse_name()
        raise ExtractError('unexpected token %r near %s' % (t.text, self.context()))

    def parse_name(self):
        """identifier, qualified identifier, or a functional cast / construction T(...) / T{...}"""
        # type-construction?
        t = self.peek()
        save = self.i
        if self.looks_like_type() and t.text not in ('const', 'static', 'struct'):
            # Could be a type used as functional cast: T(...) or T{...} or T::member
            try:
                ty, is_ref, _, _ = self.parse_type()
            except ExtractError:
                self.i = save
                ty = None
            if ty is not None:
                if self.peek().text == '(':
                    self.next()
                    args = self.parse_args(')')
                    return Node('construct', ty, args)
                if self.peek().text == '{':
                    b = self.parse_brace()
                    return Node('construct', ty, b.a)
                if self.peek().text == '::':
                    self.next()
                    nm = self.next().text
                    # static member of a type: seconds::zero(), time_point<seconds>::max(), T::min
                    return Node('static_member', ty, nm)
                self.i = save
        if (t.text.endswith('_tag') or (t.text == 'T' and self.ctx.template_T)) and self.peek(1).text == '{' and self.peek(2).text == '}':
            self.next(); self.next(); self.next()
            return Node('tag', t.text)
        parts = [self.next().text]
        targs = None
        while True:
            if self.peek().text == '::':
                self.next()
                parts.append(self.next().text)
            elif self.peek().text == '<' and parts[-1] in ('numeric_limits',):
                self.next()
                ty, _, _, _ = self.parse_type()
                self.expect('>')
                targs = ty
            else:
                break
        if len(parts) == 1:
            return Node('id', parts[0])
        return Node('qid', parts, targs)

    def parse_postfix(self):
        e = self.parse_primary()
        while True:
            t = self.peek()
            if t.text == '(':
                self.next()
                args = self.parse_args(')')
                e = Node('call', e, args)
            elif t.text == '[':
                self.next()
                idx = self.parse_expr()
                self.expect(']')
                e = Node('index', e, idx)
            elif t.text in ('.', '->'):
                self.next()
                nm = self.next().text
                e = Node('member', e, t.text, nm)
            elif t.text in ('++', '--'):
                self.next()
                e = Node('postfix', t.text, e)
            else:
                return e


# --------------------------------------------------------------------------- emitter
class Emitter:
    """Types an expression tree and prints C."""

    def __init__(self, ctx, scope, cur_func=None):
        self.ctx = ctx
        self.scope = scope
        self.cur_func = cur_func

    # -- type helpers
    def lookup(self, name):
        if name in self.scope:
            return self.scope[name]
        return None

    def member_type(self, objtype, name):
        if objtype is None:
            return None
        base = objtype.rstrip('*')
        if base.startswith('const '):
            base = base[6:]
        if base in self.ctx.structs:
            return self.ctx.structs[base].get(name)
        return None

    def deref(self, t):
        if t and t.endswith('*'):
            t = t[:-1]
            if t.startswith('const ') and not t.endswith('*'):
                t = t[6:]
            return t
        return None

    def ctype(self, t):
        """C spelling of a type string."""
        if t is None:
            raise ExtractError('unknown type')
        stars = ''
        while t.endswith('*'):
            stars += '*'
            t = t[:-1]
        if is_civil(t):
            t = 'fields'
        if t.startswith('atomic_'):
            t = t[len('atomic_'):]
        return t + stars

    # -- main
    def emit(self, n, want=None):
        """returns (text, type)"""
        m = getattr(self, 'e_' + n.k)
        txt, ty = m(n)
        n.t = ty
        if want is not None and is_civil(want) and is_civil(ty) and want != ty:
            # implicit alignment conversion
            fire('R9')
            txt = 'ct_%s_from_ct(%s)' % (civil_tag(want), txt)
            ty = want
        return txt, ty

    def e_num(self, n):
        s = n.a[0]
        if s == 'true':
            fire('R4'); return '1', 'bool'
        if s == 'false':
            fire('R4'); return '0', 'bool'
        ty = 'int'
        if re.search(r'[uU]', s) and re.search(r'[lL]', s):
            ty = 'unsigned long'
        elif re.search(r'[lL]', s):
            ty = 'long'
        elif re.search(r'[uU]', s):
            ty = 'unsigned'
        return s, ty

    def e_tag(self, n):
        return n.a[0], 'tag'

    def e_str(self, n):
        return n.a[0], 'const char*'

    def e_chr(self, n):
        return n.a[0], 'char'

    def e_paren(self, n):
        txt, ty = self.emit(n.a[0])
        return '(' + txt + ')', ty

    def e_id(self, n):
        name = n.a[0]
        if name == 'NULL':
            return 'NULL', 'void*'
        v = self.lookup(name)
        if v is not None:
            ty, is_ref = v
            if is_ref:
                return '(*%s)' % name, ty
            return name, ty
        if name in self.ctx.self_members and self.ctx.method_class:
            fire('R9')
            return 'self->' + name, self.ctx.self_members[name]
        if name in self.ctx.const_exprs:
            txt, ty = self.ctx.const_exprs[name]
            return txt, ty
        if name == 'EOF':
            return 'EOF', 'int'
        if name in self.ctx.funcs or name in self.ctx.free_stubs:
            return name, 'func'
        if name == 'T' and self.ctx.template_T:
            return 'T', 'tagname'
        raise ExtractError('unknown identifier %r in %s' % (name, self.cur_func))

    def e_qid(self, n):
        parts, targs = n.a
        key = '::'.join(parts)
        # enum constants
        if key in self.ctx.enum_consts:
            fire('R13')
            return self.ctx.enum_consts[key]
        # strip std:: / impl:: / detail:: / cctz::
        q = [p for p in parts if p not in ('std', 'impl', 'detail', 'cctz')]
        if len(q) < len(parts):
            fire('R2')
        key2 = '::'.join(q)
        if key2 in self.ctx.enum_consts:
            fire('R13')
            return self.ctx.enum_consts[key2]
        if key2 in self.ctx.const_exprs:
            return self.ctx.const_exprs[key2]
        if q[0] == 'numeric_limits' and targs:
            return ('numeric_limits', targs, q[1]), 'limits'
        if key in self.ctx.free_stubs:
            return key, 'qname'
        if key2 in self.ctx.free_stubs:
            return key2, 'qname'
        if len(q) == 1:
            return self.e_id(Node('id', q[0]))
        return key2, 'qname'

    LIMITS = {
        'int': ('INT_MIN', 'INT_MAX'), 'diff_t': ('INT_FAST64_MIN', 'INT_FAST64_MAX'),
        'year_t': ('INT_FAST64_MIN', 'INT_FAST64_MAX'),
        'int_fast64_t': ('INT_FAST64_MIN', 'INT_FAST64_MAX'),
        'int_least64_t': ('INT_LEAST64_MIN', 'INT_LEAST64_MAX'),
        'int64_t': ('INT64_MIN', 'INT64_MAX'),
        'size_t': ('0', 'SIZE_MAX'),
    }

    def e_static_member(self, n):
        ty, nm = n.a
        key = '%s::%s' % (ty, nm)
        if key in self.ctx.enum_consts:
            fire('R13')
            return self.ctx.enum_consts[key]
        if key in self.ctx.const_exprs:
            return self.ctx.const_exprs[key]
        return (ty, nm), 'static_member'

    def e_construct(self, n):
        ty, args = n.a
        if ty == 'tagname' or ty.endswith('_tag'):
            return ty, 'tag'
        if is_civil(ty):
            tag = civil_tag(ty)
            fire('R9')
            if len(args) == 0:
                return 'ct_%s_default()' % tag, ty
            a0txt, a0ty = self.emit(args[0])
            if len(args) == 1 and is_civil(a0ty):
                return 'ct_%s_from_ct(%s)' % (tag, a0txt), ty
            if len(args) == 1 and a0ty == 'fields':
                return 'ct_%s_from_fields(%s)' % (tag, a0txt), ty
            texts = [a0txt] + [self.emit(a)[0] for a in args[1:]]
            defaults = ['1', '1', '0', '0', '0']
            while len(texts) < 6:
                texts.append(defaults[len(texts) - 1])
                fire('R9d')
            return 'ct_%s_ctor6(%s)' % (tag, ', '.join(texts)), ty
        if ty == 'fields':
            fire('R7')
            texts = [self.emit(a)[0] for a in args]
            return 'mk_fields(%s)' % ', '.join(texts), 'fields'
        if ty in ('seconds_t', 'time_point_s') or ty in INT_TYPES or ty in self.ctx.typedefs or ty.startswith('chrono_'):
            # functional cast of a scalar
            fire('R3')
            if ty.startswith('chrono_'):
                mult = {'chrono_hours': 3600, 'chrono_minutes': 60, 'chrono_seconds': 1}[ty]
                txt, _ = self.emit(args[0])
                return '((seconds_t)((%s) * %d))' % (txt, mult), 'seconds_t'
            if len(args) == 0:
                return '((%s)0)' % self.ctype(ty), ty
            txt, _ = self.emit(args[0])
            return '((%s)(%s))' % (self.ctype(ty), txt), ty
        raise ExtractError('construction of %s not in subset' % ty)

    def e_cast(self, n):
        ty, e = n.a
        txt, _ = self.emit(e)
        return '((%s)(%s))' % (self.ctype(ty), txt), ty

    def e_sizeof_t(self, n):
        return 'sizeof(%s)' % self.ctype(n.a[0]), 'size_t'

    def e_sizeof_e(self, n):
        txt, _ = self.emit(n.a[0])
        return 'sizeof(%s)' % txt, 'size_t'

    def e_brace(self, n):
        raise ExtractError('bare brace-init needs a target type')

    def emit_brace_as(self, n, ty):
        """brace-init list as a value of struct type ty -> mk_<ty>(...)"""
        fire('R7')
        if ty not in self.ctx.structs and not is_civil(ty):
            raise ExtractError('brace-init for non-struct %s' % ty)
        if is_civil(ty):
            raise ExtractError('brace init of civil')
        members = list(self.ctx.structs[ty].items())
        texts = []
        for (mname, mty), a in zip(members, n.a):
            if a.k == 'brace':
                texts.append(self.emit_brace_as(a, mty))
            else:
                texts.append(self.emit(a, want=mty)[0])
        if len(n.a) != len(members):
            raise ExtractError('brace-init arity for %s' % ty)
        return 'mk_%s(%s)' % (ty, ', '.join(texts))

    def e_comma(self, n):
        a, _ = self.emit(n.a[0])
        b, ty = self.emit(n.a[1])
        return '%s, %s' % (a, b), ty

    def e_ternary(self, n):
        c, _ = self.emit(n.a[0])
        a, ta = self.emit(n.a[1])
        b, tb = self.emit(n.a[2])
        return '%s ? %s : %s' % (c, a, b), ta if ta not in (None, 'void*') else tb

    def e_assign(self, n):
        op, lhs, rhs = n.a
        l, lt = self.emit(lhs)
        if is_civil(lt) and op != '=':
            raise ExtractError('compound assignment on civil type')
        if rhs.k == 'brace':
            r = self.emit_brace_as(rhs, lt)
        else:
            r, rt = self.emit(rhs, want=lt)
        return '%s %s %s' % (l, op, r), lt

    def arith_type(self, a, b):
        for t in (a, b):
            if t and t.endswith('*'):
                return t
        if a in ('time_point_s', 'seconds_t'):
            return a
        if b in ('time_point_s', 'seconds_t'):
            return b
        wide = ('long', 'int_fast64_t', 'int_least64_t', 'diff_t', 'year_t', 'int64_t', 'size_t', 'unsigned long',
                'int_fast32_t', 'int_fast16_t', 'uint_fast32_t', 'uint_fast64_t', 'ptrdiff_t')
        for t in (a, b):
            if t in wide:
                return t
        return 'int'

    def e_bin(self, n):
        op, lhs, rhs = n.a
        l, lt = self.emit(lhs)
        r, rt = self.emit(rhs)
        lc, rc = is_civil(lt), is_civil(rt)
        if lc or rc:
            fire('R9op')
            if op in ('<', '<=', '>', '>=', '==', '!='):
                if not (lc and rc):
                    raise ExtractError('civil compared with non-civil')
                nm = {'<': 'lt', '<=': 'le', '>': 'gt', '>=': 'ge', '==': 'eq', '!=': 'ne'}[op]
                return 'ct_%s(%s, %s)' % (nm, l, r), 'bool'
            if op == '+' and lc and not rc:
                return 'ct_%s_plus(%s, %s)' % (civil_tag(lt), l, r), lt
            if op == '+' and rc and not lc:
                return 'ct_%s_plus_r(%s, %s)' % (civil_tag(rt), l, r), rt
            if op == '-' and lc and not rc:
                return 'ct_%s_minus(%s, %s)' % (civil_tag(lt), l, r), lt
            if op == '-' and lc and rc:
                if lt != rt:
                    raise ExtractError('difference of differently aligned civil times')
                return 'ct_%s_diff(%s, %s)' % (civil_tag(lt), l, r), 'diff_t'
            raise ExtractError('operator %s on civil type' % op)
        if op in ('<', '<=', '>', '>=', '==', '!=', '&&', '||'):
            ty = 'bool'
            # std::string == "literal"
            if lt == 'vstr' and op in ('==', '!='):
                fire('R14')
                txt = 'vstr_eq_cstr(&%s, %s)' % (l, r)
                return (txt if op == '==' else '!' + txt), 'bool'
            if rt == 'vstr' and lt == 'const char*' and op == '==':
                fire('R14')
                return 'vstr_eq_cstr(&%s, %s)' % (r, l), 'bool'
        elif op == '-' and lt and lt.endswith('*') and rt and rt.endswith('*'):
            ty = 'ptrdiff_t'
        else:
            ty = self.arith_type(lt, rt)
        return '%s %s %s' % (l, op, r), ty

    def rebase_of(self, e):
        """R18: base pointer for a local iterator pointer (unit configuration), or None"""
        rb = getattr(self.ctx, 'rebase', {}).get(self.cur_func)
        if not rb:
            return None
        while e.k in ('paren',) or (e.k in ('prefix', 'postfix') and e.a[0] in ('++', '--')):
            e = e.a[0] if e.k == 'paren' else e.a[1]
        if e.k == 'id' and e.a[0] in rb:
            return rb[e.a[0]]
        return None

    def e_prefix(self, n):
        op, e = n.a
        txt, ty = self.emit(e)
        if op == '*' and self.rebase_of(e):
            fire('R18')
            b = self.rebase_of(e)
            return '(*(%s + ((%s) - %s)))' % (b, txt, b), self.deref(ty)
        if is_civil(ty) and op in ('++', '--', '-', '+'):
            raise ExtractError('unary %s on civil type' % op)
        if op == '*':
            return '*' + txt, self.deref(ty)
        if op == '&':
            return '&' + txt, (ty + '*') if ty else None
        if op == '!':
            return '!' + txt, 'bool'
        return op + txt, ty

    def e_postfix(self, n):
        op, e = n.a
        txt, ty = self.emit(e)
        if is_civil(ty):
            raise ExtractError('postfix %s on civil type' % op)
        return txt + op, ty

    def e_index(self, n):
        a, at = self.emit(n.a[0])
        i, _ = self.emit(n.a[1])
        if at and at.endswith('*') and self.rebase_of(n.a[0]):
            fire('R18')
            b = self.rebase_of(n.a[0])
            return '%s[((%s) - %s) + (%s)]' % (b, a, b, i), self.deref(at)
        if at and at.startswith('vec_'):
            fire('R14')
            return '%s.data[%s]' % (a, i), at[4:]
        if at == 'vstr':
            fire('R14')
            return '%s.data[%s]' % (a, i), 'char'
        if at and at.endswith('*'):
            return '%s[%s]' % (a, i), self.deref(at)
        if at and at.endswith(']'):
            # array type "T[n][m]"
            m = re.match(r'(.*?)\[([^\]]*)\](.*)$', at)
            inner = m.group(1) + m.group(3)
            return '%s[%s]' % (a, i), inner
        raise ExtractError('index into %r (%s)' % (at, a))

    ACCESSORS = {'year': 'y', 'month': 'm', 'day': 'd', 'hour': 'hh', 'minute': 'mm', 'second': 'ss'}

    def e_member(self, n):
        obj, op, name = n.a
        o, ot = self.emit(obj)
        if is_civil(ot):
            if name == 'f_':
                fire('R9')
                return o, 'fields'
            return (o, ot, op, name), 'method'
        if ot == 'fields' and name == 'f_':
            return o, 'fields'
        mt = self.member_type(ot, name)
        okey = ((ot or '').rstrip('*').replace('const ', ''), name)
        if okey in self.ctx.stub_methods:
            return (o, ot, op, name), 'method'
        if mt is None:
            # method names are handled in e_call; return a marker
            return (o, ot, op, name), 'method'
        if op == '->' and self.rebase_of(obj):
            fire('R18')
            b = self.rebase_of(obj)
            return '(*(%s + ((%s) - %s))).%s' % (b, o, b, name), mt
        return '%s%s%s' % (o, op, name), mt

    def e_call(self, n):
        fn, args = n.a
        # numeric_limits / static members / parenthesised callee
        if fn.k == 'paren':
            inner = fn.a[0]
            f, ft = self.emit(inner)
        else:
            f, ft = self.emit(fn)
        if ft == 'limits':
            _, ty, which = f
            fire('R11')
            lim = self.LIMITS.get(ty)
            if lim is None:
                raise ExtractError('numeric_limits<%s>' % ty)
            return lim[0 if which == 'min' else 1], ty
        if ft == 'static_member':
            ty, nm = f
            fire('R11')
            if ty in ('time_point_s', 'seconds_t') and nm in ('max', 'min', 'zero'):
                return {'max': 'INT64_MAX', 'min': 'INT64_MIN', 'zero': '0'}[nm] and \
                    '((%s)%s)' % (ty, {'max': 'INT64_MAX', 'min': 'INT64_MIN', 'zero': '0'}[nm]), ty
            if is_civil(ty) and nm in ('max', 'min'):
                return 'ct_%s_%s()' % (civil_tag(ty), nm), ty
            key = '%s::%s' % (ty, nm)
            if key in self.ctx.funcs or nm in self.ctx.funcs:
                return self.call_function(self.ctx.funcs.get(key) or self.ctx.funcs[nm], args)
            # functor construction, e.g. Transition::ByUnixTime()
            return '%s_%s' % (ty, nm), 'functor'
        if ft == 'method':
            o, ot, op, name = f
            return self.call_method(o, ot, op, name, args)
        if ft == 'qname' and not args and f in getattr(self.ctx, 'functors', {}):
            fire('R6')
            return self.ctx.functors[f], 'functor'
        if ft == 'functor':
            # functor applied to arguments: cmp(a, b) -> cname(&a, &b)
            fire('R6')
            a = ['&(%s)' % self.emit(x)[0] for x in args]
            return '%s(%s)' % (f, ', '.join(a)), 'bool'
        if ft == 'qname':
            if f in self.ctx.free_stubs:
                return self.ctx.free_stubs[f](self, args)
            if f in self.ctx.funcs:
                return self.call_function(self.ctx.funcs[f], args)
            last = f.split('::')[-1]
            if last in self.ctx.funcs:
                return self.call_function(self.ctx.funcs[last], args)
            raise ExtractError('call of unknown qualified function %s' % f)
        if ft == 'func':
            if f in self.ctx.free_stubs:
                return self.ctx.free_stubs[f](self, args)
            return self.call_function(self.ctx.funcs[f], args)
        if fn.k == 'id' and fn.a[0] in self.ctx.free_stubs:
            return self.ctx.free_stubs[fn.a[0]](self, args)
        raise ExtractError('call of %r (%s) not understood' % (f, ft))

    def call_method(self, o, ot, op, name, args):
        if is_civil(ot) or ot == 'fields':
            if name in self.ACCESSORS and not args:
                fire('R9')
                fld = self.ACCESSORS[name]
                rty = 'year_t' if name == 'year' else 'int'
                return '%s%s%s' % (o, op, fld), rty
        key = (ot.rstrip('*').replace('const ', '') if ot else None, name)
        if key in self.ctx.stub_methods:
            return self.ctx.stub_methods[key](self, o, ot, op, args)
        raise ExtractError('method %s on %s not in subset' % (name, ot))

    def call_function(self, sigs, args):
        # evaluate args once
        ev = []
        for a in args:
            if a.k == 'brace':
                ev.append((None, 'brace', a))
            else:
                txt, ty = self.emit(a)
                ev.append((txt, ty, a))
        cands = []
        for s in sigs:
            params = s.params
            if s.tagdispatch:
                # first arg must be a tag expression
                if not ev or ev[0][1] != 'tag':
                    continue
                tagtxt = ev[0][0]
                if tagtxt in ('T', 'tagname'):
                    tag = self.ctx.template_T
                else:
                    tag = tagtxt[:-4]
                if tag != s.tagdispatch:
                    continue
                rest = ev[1:]
            else:
                rest = ev
            if len(rest) > len(params):
                continue
            if any(p.default is None for p in params[len(rest):]):
                continue
            ok = True
            for (txt, ty, a), p in zip(rest, params):
                if ty == 'brace':
                    continue
                if not self.compatible(ty, p.typ):
                    ok = False
            if ok:
                cands.append((s, rest))
        if len(cands) != 1:
            raise ExtractError('overload resolution for %s: %d candidates (arg types %s)' % (
                sigs[0].cxxname, len(cands), [e[1] for e in ev]))
        s, rest = cands[0]
        if len(sigs) > 1 or s.tagdispatch:
            fire('R6')
        out = []
        if s.is_method:
            out.append('self')
        for (txt, ty, a), p in zip(rest, s.params):
            if ty == 'brace':
                txt = self.emit_brace_as(a, p.typ)
                ty = p.typ
            if is_civil(p.typ) and is_civil(ty) and p.typ != ty:
                fire('R9')
                txt = 'ct_%s_from_ct(%s)' % (civil_tag(p.typ), txt)
            if p.byref:
                fire('R8')
                if txt.startswith('(*') and txt.endswith(')') and re.match(r'^\(\*\w+\)$', txt):
                    txt = txt[2:-1]
                elif txt.startswith('*') and re.match(r'^\*[\w>.-]+$', txt):
                    txt = txt[1:]
                else:
                    txt = '&(%s)' % txt
            out.append(txt)
        for p in s.params[len(rest):]:
            fire('R9d')
            out.append(p.default)
        for o_ in out:
            if not isinstance(o_, str):
                raise ExtractError('argument of %s not an expression: %r' % (s.cname, o_))
        return '%s(%s)' % (s.cname, ', '.join(out)), s.ret

    def compatible(self, argt, part):
        if argt is None or part is None:
            return True
        if argt == part:
            return True
        if is_civil(argt) or is_civil(part):
            return is_civil(argt) and is_civil(part)
        if argt == 'tag':
            return False
        structs = self.ctx.structs
        a_struct = argt.rstrip('*') in structs or argt.startswith('vec_') or argt == 'vstr'
        p_struct = part.rstrip('*') in structs or part.startswith('vec_') or part == 'vstr'
        if a_struct or p_struct:
            return argt == part or (argt == 'void*' and part.endswith('*'))
        if argt.endswith('*') != part.endswith('*'):
            return argt == 'void*' and part.endswith('*')
        if argt.endswith('*'):
            return argt.replace('const ', '') == part.replace('const ', '') or argt == 'void*' or part == 'void*' or part == 'const void*'
        # distinguish time_point from integers for MakeUnique overloads
        if (argt == 'time_point_s') != (part == 'time_point_s'):
            return False
        return True


# --------------------------------------------------------------------------- statements
class FuncTranslator:
    def __init__(self, ctx, sig, body_toks, extra_scope=None):
        self.ctx = ctx
        self.sig = sig
        self.toks = body_toks
        self.scope = collections.ChainMap({})
        if extra_scope:
            self.scope.update(extra_scope)
        for p in sig.params:
            if p.name:
                self.scope[p.name] = (p.typ, p.byref)
        self.out = []
        self.loop_no = 0
        self.loop_contracts = {}
        self.pre_loop = {}
        self.hoisted = []
        self.stmt_hooks = []

    def P(self, toks=None):
        return Parser(toks if toks is not None else self.toks, self.ctx, self.scope)

    def E(self):
        return Emitter(self.ctx, self.scope, self.sig.cname)

    def translate(self, loop_contracts=None, pre_loop=None, stmt_hooks=None):
        self.loop_contracts = loop_contracts or {}
        self.pre_loop = pre_loop or {}
        self.stmt_hooks = [[h[0], h[1], 0, (h[2] if len(h) > 2 else 'before')] for h in (stmt_hooks or [])]
        p = self.P()
        p.expect('{')
        body = ''
        if 0 in self.pre_loop:   # ghost declarations at function entry (additions only)
            body += SPEC_PUSH + ''.join('  ' + ln + '\n' for ln in self.pre_loop[0].strip().split('\n')) + SPEC_POP
        body += self.block(p, 1)
        if not p.at_end():
            raise ExtractError('trailing tokens after body of %s' % self.sig.cname)
        for h in self.stmt_hooks:
            if h[2] != 1:
                raise ExtractError('%s: ghost hook /%s/ matched %d statements, expected exactly 1' % (self.sig.cname, h[0], h[2]))
        return '{\n' + body + '}\n'

    def ind(self, d):
        return '  ' * d

    def block(self, p, d):
        """statements up to the matching '}' (consumed)."""
        out = ''
        self.scope = self.scope.new_child()
        while not p.accept('}'):
            if p.at_end():
                raise ExtractError('unbalanced block')
            out += self.statement(p, d)
        self.scope = self.scope.parents
        return out

    def substatement(self, p, d):
        if p.peek().text == '{':
            p.next()
            return ' {\n' + self.block(p, d + 1) + self.ind(d) + '}'
        return '\n' + self.statement(p, d + 1).rstrip('\n')

    def loop_clause(self, d):
        self.loop_no += 1
        c = self.loop_contracts.get(self.loop_no)
        if c:
            return '\n' + SPEC_PUSH + '\n'.join(self.ind(d + 1) + ln for ln in c.strip().split('\n')) + '\n' + SPEC_POP + self.ind(d)
        return ''

    def pre(self, d):
        g = self.pre_loop.get(self.loop_no + 1)
        if g:
            return SPEC_PUSH + ''.join(self.ind(d) + ln + '\n' for ln in g.strip().split('\n')) + SPEC_POP
        return ''

    def cond_with_decl(self, p, d):
        """Handles `if (const char* ap = expr)` (R12). Returns (hoisted_decl_text, cond_text)."""
        if p.looks_like_type():
            save = p.i
            try:
                ty, is_ref, is_const, _ = p.parse_type()
                nm = p.next()
                if nm.kind == 'id' and p.accept('='):
                    fire('R12')
                    e = p.parse_expr()
                    txt, ety = Emitter(self.ctx, self.scope, self.sig.cname).emit(e)
                    # widen the scope: declare in the enclosing block
                    self.scope[nm.text] = (ty, False)
                    decl = '%s %s;' % (self.E().ctype(ty), nm.text)
                    return decl, '(%s = %s) != NULL' % (nm.text, txt)
            except ExtractError:
                pass
            p.i = save
        e = p.parse_expr()
        txt, _ = self.E().emit(e)
        return None, txt

    def statement(self, p, d):
        pre = ''
        if self.stmt_hooks:
            head = ' '.join(tk.text for tk in p.toks[p.i:p.i + 24])
            post = ''
            for h in self.stmt_hooks:
                if re.match(h[0], head):
                    h[2] += 1
                    txt = SPEC_PUSH + ''.join(self.ind(d) + ln + '\n' for ln in h[1].strip().split('\n')) + SPEC_POP
                    if h[3] == 'after':
                        post += txt
                    else:
                        pre += txt
            return pre + self.statement1(p, d) + post
        return pre + self.statement1(p, d)

    def statement1(self, p, d):
        t = p.peek()
        I = self.ind(d)
        if t.text == ';':
            p.next()
            return I + ';\n'
        if t.text == '{':
            p.next()
            return I + '{\n' + self.block(p, d + 1) + I + '}\n'
        if t.text == 'return':
            p.next()
            if p.accept(';'):
                return I + 'return;\n'
            if p.peek().text == '{':
                b = p.parse_brace()
                p.expect(';')
                txt = self.E().emit_brace_as(b, self.sig.ret)
                return I + 'return %s;\n' % txt
            e = p.parse_expr()
            p.expect(';')
            txt, ty = self.E().emit(e, want=self.sig.ret)
            if self.sig.ret == 'vstr' and ty in ('char*', 'const char*') or (self.sig.ret == 'vstr' and ty and ty.endswith(']')):
                fire('R14')
                txt = 'vstr_from_cstr(%s)' % txt
            return I + 'return %s;\n' % txt
        if t.text == 'if':
            p.next()
            p.expect('(')
            decl, cond = self.cond_with_decl(p, d)
            p.expect(')')
            s = ''
            if decl:
                s += I + decl + '\n'
            s += I + 'if (%s)' % cond + self.substatement(p, d)
            if p.peek().text == 'else':
                p.next()
                if p.peek().text == 'if':
                    rest = self.statement(p, d)
                    s += ' else ' + rest.lstrip()
                    return s
                s += ' else' + self.substatement(p, d)
            return s + '\n'
        if t.text == 'while':
            p.next()
            p.expect('(')
            s = self.pre(d)
            decl, cond = self.cond_with_decl(p, d)
            p.expect(')')
            if decl:
                s += I + decl + '\n'
            s += I + 'while (%s)' % cond + self.loop_clause(d) + self.substatement(p, d) + '\n'
            return s
        if t.text == 'do':
            p.next()
            s = self.pre(d)
            self.loop_no += 1
            my = self.loop_no
            body = self.substatement(p, d)
            p.expect('while')
            p.expect('(')
            e = p.parse_expr()
            p.expect(')')
            p.expect(';')
            c = self.loop_contracts.get(my)
            clause = ('\n' + SPEC_PUSH + '\n'.join(self.ind(d + 1) + ln for ln in c.strip().split('\n')) + '\n' + SPEC_POP) if c else ''
            return s + I + 'do' + body + ' while (%s)%s;\n' % (self.E().emit(e)[0], clause)
        if t.text == 'for' and p.peek(2).text == 'auto' and p.peek(3).text == '*' and p.peek(5).text == ':' and p.peek(6).text == '{':
            fire('R15')
            p.next(); p.expect('('); p.next(); p.next()
            var = p.next().text
            p.expect(':')
            lst = p.parse_brace()
            p.expect(')')
            # capture the body tokens
            start = p.i
            if p.peek().text == '{':
                depth = 0
                while True:
                    tk = p.next()
                    if tk.text == '{':
                        depth += 1
                    elif tk.text == '}':
                        depth -= 1
                        if depth == 0:
                            break
            else:
                while p.next().text != ';':
                    pass
            body_toks = p.toks[start:p.i]
            out = ''
            for el in lst.a:
                txt, ty = self.E().emit(el)
                self.scope = self.scope.new_child()
                self.scope[var] = (ty, False)
                sub = Parser(body_toks, self.ctx, self.scope)
                out += I + '{\n' + self.ind(d + 1) + '%s %s = %s;\n' % (self.E().ctype(ty), var, txt) + self.statement(sub, d + 1) + I + '}\n'
                self.scope = self.scope.parents
            return out
        if t.text == 'for':
            p.next()
            p.expect('(')
            s = self.pre(d)
            self.scope = self.scope.new_child()
            # init
            init = ''
            if not p.accept(';'):
                if p.looks_like_type():
                    init = self.declaration(p, 0, in_for=True)
                else:
                    e = p.parse_expr()
                    p.expect(';')
                    init = self.E().emit(e)[0] + ';'
            else:
                init = ';'
            # range-for?  (handled by unit-specific pre-rewrite; abort here)
            cond = ''
            hoist = None
            if not p.accept(';'):
                hoist, cond = self.cond_with_decl(p, d)
                p.expect(';')
            step = ''
            if p.peek().text != ')':
                e = p.parse_expr()
                step = self.E().emit(e)[0]
            p.expect(')')
            if hoist:
                s += I + hoist + '\n'
            s += I + 'for (%s %s; %s)' % (init.strip(), cond, step) + self.loop_clause(d) + self.substatement(p, d) + '\n'
            self.scope = self.scope.parents
            return s
        if t.text == 'switch':
            p.next()
            p.expect('(')
            e = p.parse_expr()
            p.expect(')')
            txt, _ = self.E().emit(e)
            p.expect('{')
            s = I + 'switch (%s) {\n' % txt
            self.scope = self.scope.new_child()
            while not p.accept('}'):
                if p.peek().text == 'case':
                    p.next()
                    ce = p.parse_ternary()
                    p.expect(':')
                    s += I + '  case %s:\n' % self.E().emit(ce)[0]
                elif p.peek().text == 'default':
                    p.next(); p.expect(':')
                    s += I + '  default:\n'
                else:
                    s += self.statement(p, d + 2)
            self.scope = self.scope.parents
            return s + I + '}\n'
        if t.text in ('break', 'continue'):
            p.next(); p.expect(';')
            return I + t.text + ';\n'
        if t.text == 'assert':
            p.next()
            fire('R17')
            p.expect('(')
            e = p.parse_expr()
            p.expect(')'); p.expect(';')
            txt, _ = self.E().emit(e)
            return I + '__CPROVER_assert(%s, "repo assert: %s");\n' % (txt, txt.replace('"', "'").replace('\\', ''))
        if p.looks_like_type() and not self.is_expression_start(p):
            return self.declaration(p, d)
        e = p.parse_expr()
        p.expect(';')
        return I + self.E().emit(e)[0] + ';\n'

    def is_expression_start(self, p):
        """A type name followed by '(' , '{' or '::' is an expression (construction), unless it is a declaration."""
        save = p.i
        try:
            p.parse_type()
            nxt = p.peek()
            return nxt.text in ('(', '{', '::', ')', ';', ',') or nxt.kind == 'op' and nxt.text not in ('*', '&')
        except ExtractError:
            return True
        finally:
            p.i = save

    def declaration(self, p, d, in_for=False):
        I = self.ind(d)
        ty, is_ref, is_const, is_static = p.parse_type()
        out = ''
        first = True
        while True:
            if not first:
                # additional declarators share the base type
                while p.accept('*'):
                    pass
            nm = p.next()
            if nm.kind != 'id':
                raise ExtractError('declarator name expected near ' + p.context())
            name = nm.text
            dims = ''
            while p.peek().text == '[':
                p.next()
                if p.peek().text == ']':
                    p.next(); dims += '[]'
                else:
                    de = p.parse_expr()
                    p.expect(']')
                    dims += '[%s]' % self.E().emit(de)[0]
            vty = ty
            if ty == 'auto':
                vty = None
            init = None
            em = self.E()
            if p.accept('='):
                if p.peek().text == '{':
                    b = p.parse_brace()
                    if dims:
                        init = '{' + ', '.join(self.brace_item(x) for x in b.a) + '}'
                    elif vty in self.ctx.structs:
                        init = em.emit_brace_as(b, vty)
                    elif vty and vty.startswith('atomic_') or len(b.a) == 0:
                        init = '0'
                    else:
                        raise ExtractError('brace init of %s' % vty)
                else:
                    e = p.parse_assign()
                    init, ity = em.emit(e, want=vty)
                    if vty is None:
                        fire('Rauto')
                        vty = ity
                        if vty is None or vty in ('method', 'qname', 'func'):
                            raise ExtractError('cannot infer auto type of %s' % name)
                        if ity == 'char*' or ity == 'const char*':
                            pass
                    if vty == 'vstr' and ity in ('const char*', 'char*'):
                        fire('R14')
                        init = 'vstr_from_cstr(%s)' % init
            elif p.peek().text == '(':
                # direct-initialisation  T name(args)
                p.next()
                args = p.parse_args(')')
                if is_ref or not (is_civil(vty) or vty in self.ctx.structs):
                    if len(args) != 1:
                        raise ExtractError('direct-init arity')
                    init, ity = em.emit(args[0], want=vty)
                else:
                    init, ity = em.emit(Node('construct', vty, args))
            elif p.peek().text == '{':
                b = p.parse_brace()
                init = em.emit(Node('construct', vty, b.a))[0]
            cty = em.ctype(vty) if vty else None
            if is_ref:
                # reference local -> pointer local bound once
                if init is None:
                    raise ExtractError('reference without initialiser')
                if init.startswith('*') and re.match(r'^\*[\w>.-]+$', init):
                    addr = init[1:]
                elif re.match(r'^\(\*\w+\)$', init):
                    addr = init[2:-1]
                else:
                    addr = '&(%s)' % init
                self.scope[name] = (vty, True)
                out += '%s%s%s* const %s = %s;' % (I, 'const ' if is_const else '', cty, name, addr)
            else:
                self.scope[name] = ((vty + dims) if dims else vty, False)
                q = ''
                if is_static:
                    q += 'static '
                if is_const and not cty.startswith('const '):
                    q += 'const '
                if is_civil(vty) and init is None:
                    fire('R9')
                    init = 'ct_%s_default()' % civil_tag(vty)
                out += '%s%s%s %s%s%s;' % (I, q, cty, name, dims, (' = ' + init) if init is not None else '')
            first = False
            if p.accept(','):
                out += '\n' if not in_for else ' '
                continue
            p.expect(';')
            break
        return out + ('\n' if not in_for else '')

    def brace_item(self, x):
        if x.k == 'brace':
            return '{' + ', '.join(self.brace_item(y) for y in x.a) + '}'
        return self.E().emit(x)[0]
