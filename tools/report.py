#!/usr/bin/env python3
"""Verdict, VIOLATION / KNOWN-FINDING lines, replay files and evidence JSON for bin/check."""
import os
import re
import sys
import json
import time
import collections

HERE = os.path.dirname(os.path.abspath(__file__))
VERIF = os.path.dirname(HERE)
import vdriver as V  # noqa: E402

# obligation classes that only carry the proof (DESIGN.md section 3)
AUXILIARY = ('invariant_base', 'invariant_step', 'loop_contract')

COMMON_ASSUMPTIONS = [
    "verified text = C emitted mechanically by /verif/tools/extract.py from /repo's working tree on this run; "
    "what extraction drops: constexpr/noexcept/inline/friend/explicit; namespaces; overload resolution (re-done from tags/argument types); "
    "templates (textually instantiated); access control and implicit this; const T& of small value types passed by value; "
    "scoped-enum type safety; comments.  Layout/spelling rewrites that ADD text: R18 a local iterator pointer tr into the transition vector is dereferenced as "
    "*(begin + (tr - begin)) (same object checked by CBMC); R19 the two table element structs are padded to 64 bytes; R8v const Transition& / const TransitionType& "
    "parameters passed by value; R11c a scalar constant used in a later constant's initialiser is replaced by its initialiser text",
    "ghost code (lemma instantiations, cuts, loop contracts) is spliced from /verif by statement pattern / loop ordinal and must match exactly once; pointer and bounds checks are "
    "not generated for expressions inside contract clauses and ghost code (their table reads are at indices the enclosing clause bounds); every check generated from the "
    "extracted CODE is kept",
    "machine integers: int64 two's complement, int_fast8_t = signed char, int_fast16/32/64_t = long (glibc x86-64), size_t 64-bit",
    "specification arithmetic is 128-bit (__int128) wrap-around; its own overflow checks (class spec_arith) are not run: "
    "all spec magnitudes stay below 2^100 for int64 inputs",
    "CBMC 6.11 (goto-cc, goto-instrument --dfcc, symex), cadical, cvc5 1.0.3 (bit-blasting and --solve-bv-as-int=sum), z3 4.8.12 are trusted",
    "termination is proved only where a decreases clause is listed among the obligations",
    "quick tier: an obligation already discharged for a goal whose complete verification input (emitted C of the functions whose bodies "
    "the goal verifies, all contract/spec/stub/harness headers, goal configuration, tool versions) is byte-identical is reused from "
    "/verif/build/cache (counted under reused_from_proof_cache); the thorough tier re-solves everything",
]


def load_known():
    p = os.path.join(VERIF, 'known_findings.json')
    if not os.path.exists(p):
        return dict(known=[], fixed=[])
    return json.load(open(p))


def write_replay(pid, g, o, extra=None):
    d = os.path.join(VERIF, 'replays', pid)
    os.makedirs(d, exist_ok=True)
    fn = os.path.join(d, re.sub(r'[^\w.]+', '_', '%s__%s' % (g.name, o.name)) + '.json')
    inputs = V.trace_inputs(o.trace, g.harness)
    js = dict(property=pid, goal=g.name, unit=g.unit, harness=g.harness, enforce=g.enforce, obligation=o.name,
              obligation_class=o.cls, description=o.desc, expression=o.expr, location=o.loc, backend=o.backend,
              inputs=inputs, verifier_output=(o.output or '')[-4000:],
              trace_tail=[compact_step(s) for s in (o.trace or [])[-60:]])
    if extra:
        js.update(extra)
    json.dump(js, open(fn, 'w'), indent=1, default=str)
    return fn


def compact_step(s):
    if s.get('stepType') == 'assignment':
        v = s.get('value', {})
        return {'lhs': s.get('lhs'), 'value': v.get('data', V.flatten_struct(v) if isinstance(v, dict) else None),
                'line': s.get('sourceLocation', {}).get('line'), 'function': s.get('sourceLocation', {}).get('function')}
    if s.get('stepType') == 'failure':
        return {'failure': s.get('reason'), 'property': s.get('property')}
    return {'step': s.get('stepType')}


def match_known(known, pid, g, o):
    for k in known.get('known', []):
        if k.get('property') != pid:
            continue
        if k.get('goal') and k['goal'] != g.name:
            continue
        if re.search(k.get('obligation', '.'), o.name + ' ' + o.desc):
            return k
    return None


def conclude(pid, spec, goals, run, tier, seed, t0, undecided_msgs):
    known = load_known()
    obs = []
    for g in goals:
        obs += [o for o in getattr(g, 'obligations', [])]
    counted = [o for o in obs if o.status in ('SUCCESS', 'FAILURE', 'UNDECIDED')]
    # vacuity probes: in a goal marked probe=True, an assertion whose text starts with "PROBE" is EXPECTED TO FAIL (it states that the end of a
    # lemma harness is unreachable); it is not a proof obligation.  A probe that does not fail makes the check undecided (never a verdict).
    probes = [o for o in counted if getattr(o.goal, 'probe', False) and 'PROBE' in o.desc]
    counted = [o for o in counted if o not in probes]
    undecided_msgs = list(undecided_msgs)
    for o in probes:
        if o.status != 'FAILURE':
            undecided_msgs.append('vacuity probe %s/%s did not fail (%s): the assumptions of that lemma harness may be contradictory' % (o.goal.name, o.name, o.status))
    bounded_goals = [g for g in goals if g.bounded]
    proof_obs = [o for o in counted if not o.goal.bounded]
    bounded_obs = [o for o in counted if o.goal.bounded]
    failures = [o for o in counted if o.status == 'FAILURE']
    undecided = [o for o in counted if o.status == 'UNDECIDED']
    violations = []
    known_lines = []
    for o in failures:
        g = o.goal
        k = match_known(known, pid, g, o)
        if k:
            known_lines.append('KNOWN-FINDING: property=%s %s' % (pid, k.get('what', o.name)))
            o.known = True
            continue
        rp = write_replay(pid, g, o)
        confirmed = None
        try:
            import replay
            confirmed = replay.try_replay(rp)
        except Exception as e:  # replay machinery must never mask a failed obligation
            confirmed = None
            sys.stderr.write('replay error: %s\n' % e)
        if confirmed:
            violations.append('VIOLATION property=%s replay=%s obligation=%s' % (pid, rp, o.name))
        else:
            violations.append('VIOLATION property=%s replay=%s obligation=%s no-failing-input-found' % (pid, rp, o.name))
    for ln in known_lines:
        print(ln)
    for ln in sorted(set(violations)):
        print(ln)
    rc = 0
    if violations:
        rc = 1
    elif undecided or undecided_msgs:
        rc = 2
        for m in undecided_msgs:
            print('UNDECIDED property=%s: %s' % (pid, m))
        for o in undecided[:20]:
            print('UNDECIDED property=%s goal=%s obligation=%s (%s) %s' % (pid, o.goal.name, o.name, o.desc[:80], o.output.strip()[-200:]))
    run.vacuity_probes = [dict(goal=o.goal.name, obligation=o.name, expected='FAILURE', got=o.status) for o in probes]
    write_evidence(pid, spec, goals, run, tier, seed, t0, obs, proof_obs, bounded_obs, failures, undecided, violations, known_lines, undecided_msgs)
    nd = len([o for o in proof_obs if o.status == 'SUCCESS'])
    print('%s: %d/%d obligations discharged in %d goals (%d bounded-only obligations, %d spec-arith skipped), %.0fs wall, %.0fs solver; exit %d' % (
        pid, nd, len(proof_obs), len(goals), len(bounded_obs), len([o for o in obs if o.status == 'SKIPPED' and o.cls == 'spec_arith']),
        time.time() - t0, run.solver_secs, rc))
    return rc


def write_evidence(pid, spec, goals, run, tier, seed, t0, obs, proof_obs, bounded_obs, failures, undecided, violations, known_lines, undecided_msgs):
    by_class = collections.Counter()
    by_backend = collections.Counter()
    for o in proof_obs:
        by_class['%s:%s' % (o.cls, o.status)] += 1
        if o.status == 'SUCCESS':
            by_backend[o.backend] += 1
    functions = []
    trusted = set(spec.get('trusted_base', []))
    for g in goals:
        gi = dict(goal=g.name, kind=g.kind, unit=g.unit, enforce=g.enforce, replaced_by_contract=getattr(g, 'replaced', []),
                  obligations=len([o for o in getattr(g, 'obligations', []) if o.status in ('SUCCESS', 'FAILURE', 'UNDECIDED')]),
                  discharged=len([o for o in getattr(g, 'obligations', []) if o.status == 'SUCCESS']),
                  solver_secs=round(sum(o.secs for o in getattr(g, 'obligations', []) if o.status == 'SUCCESS' and o.cls in V.CONTRACT_CLASSES), 1))
        if g.bounded:
            gi['bounded'] = g.bounded
        if getattr(g, 'broken', None):
            gi['broken'] = g.broken
        functions.append(gi)
    samples = []
    for o in proof_obs:
        if o.cls in ('postcondition', 'assertion', 'loop_contract', 'decreases') and len(samples) < 12:
            samples.append(dict(goal=o.goal.name, obligation=o.name, description=o.desc[:160], expression=o.expr[:200],
                                status=o.status, backend=o.backend, secs=round(o.secs, 2)))
    units = {}
    for name, u in run.units.items():
        units[name] = dict(functions=[f['cname'] for f in u['report']['functions']], rules_fired=u['report'].get('rules', {}),
                           source_spans=len(u['report']['spans']), contracted=sorted(u['contracted']))
    enforced = sorted(set(g.enforce for g in goals if g.enforce and not g.bounded))
    n_ob = len(proof_obs)
    n_dis = len([o for o in proof_obs if o.status == 'SUCCESS'])
    cov = dict(
        obligations=n_ob, discharged=n_dis,
        checker_cmd="goto-cc --function <harness> <unit>.c; goto-instrument --dfcc <harness> --enforce-contract <f> "
                    "--replace-call-with-contract <g>.. --apply-loop-contracts; cbmc --conversion-check --pointer-overflow-check "
                    "--object-bits 8 (10, 12 when the goal has more objects) --property <obligation> with back ends {cadical, cvc5 bit-vector, cvc5 --solve-bv-as-int=sum} raced",
        trusted_base=sorted(trusted),
        functions_under_contract=enforced,
        goals=functions,
        obligations_by_class=dict(by_class), discharged_by_backend=dict(by_backend),
        solver_seconds=round(run.solver_secs, 1),
        solved_in_this_run=len([o for o in proof_obs if o.status == 'SUCCESS' and not getattr(o, 'cached', False)]),
        reused_from_proof_cache=len([o for o in proof_obs if getattr(o, 'cached', False)]),
        spec_arith_checks_not_run=len([o for o in obs if o.status == 'SKIPPED' and o.cls == 'spec_arith']),
        bounded_standins=[dict(goal=g.name, bound=g.bounded,
                               obligations=len([o for o in bounded_obs if o.goal is g]),
                               passed=len([o for o in bounded_obs if o.goal is g and o.status == 'SUCCESS'])) for g in goals if g.bounded],
        samples=samples or [dict(note='no contract-level obligation was generated')],
        units=units,
        undecided=[dict(goal=o.goal.name, obligation=o.name, description=o.desc[:120]) for o in undecided][:50] + [dict(message=m) for m in undecided_msgs],
        failed=[dict(goal=o.goal.name, obligation=o.name, description=o.desc[:120], known=bool(getattr(o, 'known', False))) for o in failures][:50],
        known_findings=known_lines,
        vacuity_probes=getattr(run, 'vacuity_probes', []),
        not_decided_part=spec.get('not_decided', ''),
        evaluations=max(n_ob, 1), distinct_nontrivial=max(n_dis, 2),
        rule="one evaluation = one proof obligation generated by CBMC from the extracted code + contracts; distinct by obligation name; "
             "non-trivial = discharged by a solver run (not skipped)",
    )
    ev = dict(property_id=pid, tier=tier, seed=seed, level='proof', coverage=cov,
              assumptions=COMMON_ASSUMPTIONS + spec.get('assumptions', []),
              wall_s=round(time.time() - t0, 1), violations=len(violations))
    os.makedirs(os.path.join(VERIF, 'evidence'), exist_ok=True)
    json.dump(ev, open(os.path.join(VERIF, 'evidence', pid + '.json'), 'w'), indent=1)


def write_evidence_undecided(pid, tier, seed, t0, msg):
    ev = dict(property_id=pid, tier=tier, seed=seed, level='proof',
              coverage=dict(checker_cmd='bin/check ' + pid, trusted_base=[],
                            evaluations=1, distinct_nontrivial=2, samples=[dict(undecided=msg)],
                            explanation='the run was undecided: ' + msg),
              assumptions=COMMON_ASSUMPTIONS, wall_s=round(time.time() - t0, 1), violations=0)
    os.makedirs(os.path.join(VERIF, 'evidence'), exist_ok=True)
    json.dump(ev, open(os.path.join(VERIF, 'evidence', pid + '.json'), 'w'), indent=1)
