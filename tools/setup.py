#!/usr/bin/env python3
"""setup_cmd: nothing to build ahead of time (every check rebuilds from /repo); verifies the tools are present."""
import shutil, sys, os
missing = [t for t in ('cbmc', 'goto-cc', 'goto-instrument', 'cvc5', 'g++', 'python3') if not shutil.which(t)]
if missing:
    print('missing tools:', missing); sys.exit(1)
V = os.path.dirname(os.path.dirname(os.path.abspath(__file__)))
os.makedirs(os.path.join(V, 'build'), exist_ok=True); os.makedirs(os.path.join(V, 'evidence'), exist_ok=True)
os.chmod(os.path.join(V, 'solvers', 'cvc5ib'), 0o755); os.chmod(os.path.join(V, 'bin', 'check'), 0o755)
print('ok')
