"""Which goals decide which property.  A goal = one function enforced against its contract
(callees replaced by their contracts), or one code-free lemma / property lemma."""
from vdriver import Goal

G = Goal


def enforce(unit, f, **kw):
    kw.setdefault('timeout', 400)
    return G(f, unit, enforce=f, **kw)


def plain(unit, h, **kw):
    kw.setdefault('timeout', 400)
    return G(h, unit, harness=h, kind='plain', **kw)


# ------------------------------------------------------------------ unit civil
CIVIL_LEMMAS = ['lemma_div146097', 'lemma_div400', 'lemma_fdshift4', 'lemma_fdshift100', 'lemma_fdshift400', 'lemma_fmshift',
                'lemma_leapidx', 'lemma_cong', 'lemma_cong2', 'lemma_period', 'lemma_ordyear', 'lemma_lin_lift', 'lemma_lin_fits',
                'lemma_quot_bounds', 'lemma_shift400', 'lemma_nday_lift', 'lemma_ordbound', 'lemma_valid28', 'lemma_dm_range', 'lemma_split1', 'lemma_split2', 'lemma_dm_small', 'lemma_carry', 'lemma_validday', 'lemma_nmonpre', 'lemma_stepmon', 'lemma_fd12_mono', 'lemma_monord_inj', 'lemma_nmonpre_carry', 'lemma_dm_lin', 'lemma_trunc', 'lemma_dm_mono', 'lemma_validrepr', 'lemma_ordy_mono', 'lemma_dayord_lex', 'lemma_udiff', 'lemma_fits',
                'lemma_I_anchor', 'lemma_I_sk', 'lemma_I_period', 'lemma_I_leapidx', 'lemma_I_fmstep', 'lemma_I_yearstep',
                'lemma_I_centstep', 'lemma_I_4step', 'lemma_I_monthstep', 'lemma_I_day',
                'lemma_dd', 'lemma_dd3', 'lemma_c4', 'lemma_q400', 'lemma_dist400']


def civil_spec_lemmas():
    return [plain('civil', 'pl_' + l, timeout=600) for l in CIVIL_LEMMAS]


def civil_leaves():
    return [enforce('civil', f) for f in ('is_leap_year', 'year_index', 'days_per_century', 'days_per_4years',
                                          'days_per_year', 'days_per_month')]


def civil_nday():
    return [enforce('civil', 'n_day', timeout=800)]


def civil_carry_chain():
    return [enforce('civil', f, timeout=600) for f in ('n_mon', 'n_hour', 'n_min', 'n_sec')] + \
           [enforce('civil', 'align_' + t) for t in ('second', 'minute', 'hour', 'day', 'month', 'year')] + \
           [enforce('civil', 'ct_%s_ctor6' % t, timeout=600) for t in ('second', 'minute', 'hour', 'day', 'month', 'year')]


def civil_c05_goals():
    ts = ('second', 'minute', 'hour', 'day')
    return [enforce('civil', 'ymd_ord', timeout=600), enforce('civil', 'day_difference', timeout=800)] + \
           [enforce('civil', 'step_' + t, timeout=600) for t in ts] + \
           [enforce('civil', 'scale_add'), enforce('civil', 'difference_year'), enforce('civil', 'difference_month')] + \
           [enforce('civil', 'difference_' + t, timeout=600) for t in ('hour', 'minute', 'second')] + \
           [enforce('civil', 'ct_%s_plus' % t, timeout=600) for t in ts] + \
           [enforce('civil', 'ct_%s_minus' % t, timeout=600) for t in ('minute', 'hour', 'day')] + \
           [enforce('civil', 'ct_second_minus', timeout=600, defines=['OSEC_OPAQUE'])] + \
           [enforce('civil', f, timeout=600) for f in ('step_year', 'ct_year_plus', 'ct_year_minus', 'ct_year_diff')] + \
           [enforce('civil', f, timeout=600) for f in ('step_month', 'ct_month_plus', 'ct_month_minus', 'ct_month_diff')] + \
           [plain('civil', 'pl_lemma_osec_inj', timeout=600), plain('civil', 'pl_lemma_unitrepr', timeout=600)] + \
           [G('pl_C05_%s_%s' % (k, t), 'civil', harness='pl_C05_%s_%s' % (k, t), kind='lemma', timeout=900,
              replace=['ct_%s_plus' % t, 'ct_%s_minus' % t, 'ct_%s_diff' % t]) for t in ts + ('month', 'year') for k in ('inverse', 'diffplus')] + \
           [enforce('civil', 'ct_%s_diff' % t, timeout=600) for t in ts] + \
           [enforce('civil', 'ct_' + r) for r in ('lt', 'le', 'gt', 'ge', 'eq', 'ne')]


C17_LEMMAS = ['lemma_ord_reduce', 'lemma_fd7shift', 'lemma_wd_period', 'lemma_wd_cong', 'lemma_wd_add']


def civil_c17_goals():
    return [plain('civil', 'pl_' + l, timeout=600) for l in C17_LEMMAS] + \
           [enforce('civil', 'get_weekday', timeout=800), enforce('civil', 'get_yearday', timeout=800),
            enforce('civil', 'next_weekday', timeout=600, unwind=9, unwind_only=('next_weekday#2',)),
            enforce('civil', 'prev_weekday', timeout=600, unwind=9, unwind_only=('prev_weekday#2',), no_replace=('ct_day_minus',)),
            enforce('civil', 'step_day', timeout=600), enforce('civil', 'ct_day_plus', timeout=600)]


PROPERTIES = {
    'C04': dict(
        goals=lambda: civil_spec_lemmas() + civil_leaves() + civil_nday() + civil_carry_chain(),
        trusted_base=['/verif/stubs/prelude.h (type spellings only)', '/verif/spec/gregorian.h (the specification: ORD, LEAP, DIM, CUM)',
                      'opaque specification symbols (DAYORD, VALIDD, MONBASE, NMON_PRE, ORDI, LEAPI, FMI, IDX400, FD24..FM60) are uninterpreted '
                      'functions whose definitions are assumed only at instantiated argument tuples (REVEAL_* macros in contracts/civil.h)'],
        level_text='Unbounded proof, for all int64 arguments, that the carry chain n_sec -> n_min -> n_hour -> n_mon -> n_day (incl. its four loops, '
                   'with loop invariants and decreases clauses) and the six constructors return the valid date whose day ordinal is the month base plus '
                   'the carried days, with hh/mm/ss the floor remainders, alignment fields reset, no signed overflow / out-of-bounds table access under '
                   'exactly the property\'s representability precondition.  Every obligation CBMC generates from the extracted code and contracts is '
                   'discharged; code-free arithmetic lemmas (400-year periodicity, floor-division shifts) are discharged the same way.',
        level_note='Trusted: the mechanical C++->C extraction rules (listed in evidence), CBMC/solvers, the Gregorian specification macros. '
                   'The alignment conversions between civil types (ct_T_from_ct) are covered through align_T contracts. Not covered: operator<< and the '
                   'std::ostream formatting in civil_time_detail.cc.',
        not_decided='',
        assumptions=[],
    ),
}


def goals_for(pid, tier):
    gs = PROPERTIES[pid]['goals']()
    out = []
    for g in gs:
        if g.tier == 'thorough' and tier != 'thorough':
            continue
        if pid not in g.props:
            g.props.append(pid)
        out.append(g)
    return out


# ------------------------------------------------------------------ unit fixed
def fixed_goals():
    un = dict(unwind=34, backends=('sat', 'cvc5bv'))
    return [enforce('fixed', 'Format02d', **un), enforce('fixed', 'Parse02d', **un),
            enforce('fixed', 'FixedOffsetFromName', timeout=600, **un), enforce('fixed', 'FixedOffsetToName', timeout=600, **un),
            enforce('fixed', 'FixedOffsetToAbbr', timeout=600, **un),
            G('pl_C15_roundtrip', 'fixed', harness='pl_C15_roundtrip', kind='lemma', timeout=600, **un),
            G('pl_C15_far_is_utc', 'fixed', harness='pl_C15_far_is_utc', kind='lemma', timeout=600, **un)]


NOT_YET = {
    'C06': 'not claimed: monotonicity of convert() relates two MakeTime calls whose civil seconds may lie in different brackets; as for C03 the composition lemma needs '
           'table-wide order facts and was not mechanised (DESIGN.md 11.6). MakeTime itself is under contract (C02).',
    'C07': 'not claimed: unit `format` (time_zone_format.cc: std::string building, strftime/strptime pass-through, locale) was not brought through the extractor in the time '
           'available; nothing is verified for it (DESIGN.md 11.6).',
    'C08': 'not claimed: see C07 - the format() cursor loop and its helpers are not extracted.',
    'C09': 'not claimed: see C07 - the parse() specifier loop and its helpers are not extracted.',
    'C11': 'not claimed: contracts, loop invariants and the EquivTransitions contract for NextTransition / PrevTransition are written (contracts/zone.h, units/zone_loops.py) and '
           'EquivTransitions is discharged, but the loop-invariant and postcondition obligations of the two loops time out on every back end (400 s) - undecided is never a verdict, so '
           'the property is not claimed (DESIGN.md 11.6).',
    'C12': 'not claimed: TimeZoneInfo::Load (stream reads, std::vector growth, 190 lines) is not under contract; findings D2 and D6 against this property are documented in DESIGN.md '
           'sections 7 and 11.4. The POSIX-footer field parsers it calls are covered by C16, TransOffset by C01.',
    'C18': 'not claimed: unit `chrono` (split_seconds / join_seconds templates over std::chrono durations) needs template-instantiation rewrites that were not built (DESIGN.md 11.6).',
}

PROPERTIES['C05'] = dict(
    goals=lambda: civil_spec_lemmas() + civil_leaves() + civil_nday() + civil_carry_chain() + civil_c05_goals(),
    trusted_base=['/verif/stubs/prelude.h', '/verif/spec/gregorian.h',
                  'opaque specification symbols with definitions assumed at instantiated tuples (REVEAL_* macros)'],
    level_text='Unbounded proof, for all valid civil times with int64 years and all int64 n within the representability bound, that for all six alignments (second, minute, '
               'hour, day, month, year) a + n moves the unit ordinal by exactly n (step_T through the carry chain proved under C04), that the difference of two '
               'civil times is the difference of their unit ordinals (impl::ymd_ord and impl::day_difference proved against the day ordinal through the 400-year reduction lemma_dd, '
               'then the scale_add chain, no intermediate overflow), and that the '
               'relational operators are the lexicographic order on the six fields; code-free lemmas show the day ordinal orders valid dates exactly like '
               '(year, month, day) (lemma_dayord_lex), so the order agrees with the sign of the difference.  The two inverse laws (a + n) - n == a and (a - b) + b == a are '
               'property lemmas over the operator contracts (pl_C05_inverse_T, pl_C05_diffplus_T) using injectivity of the second ordinal (lemma_osec_inj).',
    level_note='operator-(n), including n = INT64_MIN (two-step path), is discharged for all six alignments (civil_second with the second ordinal '
               'as an opaque symbol, see contracts/civil.h OSEC_OPAQUE).  Month alignment: step_month is proved through a strengthened n_mon contract (for a day 1..28 and no carried days '
               'the result is exactly the carried year / month, day kept) and the code-free lemmas lemma_stepmon (n/12, n%12 split cannot overflow the year; month ordinal moves by n), '
               'lemma_nmonpre_carry, lemma_fd12_mono and lemma_monord_inj; ct_month_plus / minus / diff and both inverse laws for civil_month are discharged. '
               'Not covered: the conversions between alignments (explicit constructors civil_T(civil_U)) beyond the align_T contracts, and operator<< / std::hash.',
    not_decided='cross-alignment conversions beyond align_T; streaming and hashing of civil times',
    assumptions=[],
)


PROPERTIES['C15'] = dict(
    goals=fixed_goals,
    level_text='Proof (all int64 offsets; all name strings up to the 31-byte capacity of the string model) that FixedOffsetToName/ToAbbr render exactly the '
               'documented text, FixedOffsetFromName accepts exactly UTC, UTC0 and well-formed names totalling at most 24h and returns the signed total, and '
               'that FromName(ToName(off)) == off. Loops of the string model are unwound to the model capacity with unwinding assertions (complete).',
    level_note='std::string is an executable C model (stubs/vstr.h, trusted); strchr is CBMC\'s built-in model. The zone-level half (a fixed zone reports '
               'that offset at every instant) is not decided here.',
    trusted_base=['/verif/stubs/vstr.h (executable model of the std::string subset; capacity 32 bytes)',
                  'CBMC built-in model of strchr', '/verif/stubs/prelude.h'],
    not_decided='zone-level half (lookup of a fixed zone reports that offset at every instant; name cache identity) is decided under C01/C14, not here',
    assumptions=['names longer than 31 bytes are outside the std::string model (the code only compares their length)'],
)


PROPERTIES['C17'] = dict(
    goals=lambda: civil_spec_lemmas() + civil_leaves() + civil_nday() + civil_carry_chain() + civil_c17_goals(),
    trusted_base=['/verif/stubs/prelude.h', '/verif/spec/gregorian.h (ORD, WD: weekday of a day ordinal, 1970-01-01 = Thursday)',
                  'opaque specification symbols (DAYORD, VALIDD, WDAY, ...) with definitions assumed at instantiated tuples (REVEAL_* macros)'],
    level_text='Unbounded proof for all valid civil days with int64 years: get_weekday returns the weekday of the date\'s day ordinal (reduction to the 400-year cycle by '
               'code-free lemmas, then a finite 32-bit table check), get_yearday is the ordinal distance from January 1 of the same year plus one and lies in 1..365/366, '
               'next_weekday / prev_weekday return the day 1..7 days after / before the argument whose weekday is the requested one (hence the nearest such day strictly '
               'after / before).  The day arithmetic they use (operator+/- on civil_day) is the C05 contract, re-discharged in the same run.',
    level_note='The outer loop of next/prev_weekday carries a loop contract (invariant + decreases); the inner loop (at most 7 iterations over a 14-entry table) is unwound 9 '
               'times with an unwinding assertion - complete, not a bounded stand-in - because goto-instrument --dfcc rejects loop contracts on this loop nest.',
    not_decided='',
    assumptions=['dfcc havocs function-local static tables at a loop contract: the (const) table contents are restated as a loop invariant'],
)


# ------------------------------------------------------------------ unit posix
def posix_goals():
    kw = dict(replace=[], unwind=12, unwind_only=('v_strchr',), timeout=600)
    return [enforce('posix', f, **kw) for f in ('ParseInt', 'ParseOffset', 'ParseDateTime')]


PROPERTIES['C16'] = dict(
    goals=posix_goals,
    level_text='Unbounded proof (texts of any length up to the 4096-byte symbolic buffer, no unwinding of the digit loop: it carries a loop invariant and a decreases clause) '
               'for the three field parsers of src/time_zone_posix.cc: ParseInt consumes at least one digit, stops at a non-digit inside the text, never overflows and '
               'returns a value in [min, max] or fails leaving *vp untouched; ParseOffset returns sign * (h:m:s) with hours in the given range; ParseDateTime on success '
               'has assigned the WHOLE transition - date form J / N / M with every field in its POSIX range and the time within +-167:59:59 - for an arbitrary initial '
               'content of the result, i.e. no field of an accepted rule is left as the caller found it; all reads stay inside the NUL-terminated text.',
    level_note='PARTIAL. Decided: definedness and ranges of every date/time field of an accepted rule, memory safety and absence of overflow of the three parsers. NOT decided: '
               'ParseAbbr and the top-level ParsePosixSpec (std::string model + abbreviation loops), hence not the full "accepted if and only if in the grammar" '
               'equivalence, nor the default dst offset.  The decimal VALUE read by ParseInt is pinned only to its range, not to the digits.',
    trusted_base=['/verif/stubs/prelude.h', 'v_strchr: executable model of strchr (contracts/posix.h), its loop unwound to the length of the literal it searches',
                  'text model: the parser argument is the start of a fresh NUL-terminated buffer (is_fresh); callees are verified inline, not through contracts'],
    not_decided='ParseAbbr, ParsePosixSpec: grammar equivalence for whole strings; digit-exact value of ParseInt',
    assumptions=['symbolic text buffer of at most 4096 bytes (sizes the allocation only)'],
)


# ------------------------------------------------------------------ unit zone
ZONE_LEMMAS = ['lemma_epoch', 'lemma_secrepr', 'lemma_osec_lex', 'lemma_prepost', 'lemma_tl_sat', 'lemma_consts']
ZD = dict(defines=['OSEC_OPAQUE'])     # the kernel sees the second ordinal of a civil second as an opaque symbol (contracts/civil.h)


def zone_lemmas():
    return [plain('zone', 'pl_' + l, timeout=600) for l in ZONE_LEMMAS]


def zone_c01_goals():
    return zone_lemmas() + [enforce('zone', f, timeout=800, **ZD) for f in ('LocalTime_TransitionType', 'LocalTime_Transition', 'BreakTime')] + \
           [enforce('rule', 'TransOffset', timeout=600, backends=('sat', 'cvc5bv'))]


MT_INLINE = ('ct_lt', 'ct_le', 'ct_gt', 'ct_ge', 'MakeUnique_tp', 'MakeUnique_unix')   # tiny bodies: verified inline rather than through their contracts


def maketime_goals():
    """MakeTime is proved by an exhaustive three-way case split on where cs lies (before the first row / at or after the last / between):
    one goal per case, each with the case as an extra precondition (contracts/zone.h, MT_CASE)"""
    return [G('MakeTime_case%d' % c, 'zone', enforce='MakeTime', timeout=900, backends=('cvc5bv',),
              defines=['OSEC_OPAQUE', 'MT_CASE=%d' % c], no_replace=MT_INLINE) for c in (1, 2, 3)]


def zone_c02_goals():
    return zone_lemmas() + [enforce('zone', f, timeout=800, **ZD) for f in ('MakeUnique_tp', 'MakeUnique_unix', 'MakeSkipped', 'MakeRepeated')] + maketime_goals()


def civil_second_support(tier_only='thorough'):
    """the civil-time contracts the zone kernel calls (second alignment) - discharged by the C04/C05 checks; re-discharged here in the thorough tier"""
    gs = civil_spec_lemmas() + civil_leaves() + civil_nday() + civil_carry_chain() + civil_c05_goals()
    for g in gs:
        g.tier = tier_only
    return gs


ZONE_TRUSTED = [
    '/verif/stubs/prelude.h', '/verif/stubs/vstr.h (std::string model)', '/verif/spec/gregorian.h',
    'std::upper_bound / std::lower_bound: trusted model (contracts/zone.h) - returns the end of the bracket containing the key, which is unique in a sorted table',
    'std::atomic<size_t> hints: load returns an ARBITRARY value (ghost gz_hint), store has no visible effect',
    'std::vector<Transition>/<TransitionType>: {data, size} pairs with in-bounds operator[] (bounds are proof obligations)',
    'contracts of civil_second +, -, comparison (ct_second_plus, ct_second_diff, ct_lt..ct_ge): discharged by the C04/C05 checks (same tree, same run directory in the thorough tier)',
]
ZONE_ASSUME = [
    'ASSUMED table well-formedness (what TimeZoneInfo::Load is meant to establish; Load itself is NOT under contract): at every index the kernel touches, '
    'type indices in range, |utc_offset| < 86400, abbr_index inside the abbreviation string, civil_sec / prev_civil_sec are the local readings of unix_time and '
    'unix_time - 1, civil_max / civil_min the readings of INT64_MAX / INT64_MIN; first transition < 0 <= last transition; the table is sorted by unix_time and by '
    'civil_sec (used as: the bracket containing a key is unique)',
    'ASSUMED margin: table times within [-2^62, 2^62] (finding D6: Load does not establish this for crafted files; real zic output is within [-2^59, 2^37])',
    'universal statements over the table are proved for ARBITRARY ghost indices gz_i / gz_j / gz_hint (nondeterministic in every harness)',
    'not extended_: the 400-year shift (BreakTime recursion, TimeLocal) and the footer-generated rows are not covered by these goals',
    'table length bounded by ZMAXTR = 2000 rows and 256 types only to size the symbolic allocation (no loop or unwinding depends on it)',
    'R18/R19: iterator pointers are dereferenced relative to the begin pointer; table element structs padded to 64 bytes (layout only)',
]

PROPERTIES['C01'] = dict(
    goals=lambda: zone_c01_goals() + civil_second_support(),
    level_text='Proof, for every table satisfying the stated well-formedness at the touched rows, every int64 instant and every hint value, that BreakTime returns the '
               'offset, DST flag and abbreviation of the default type before the first row, of the last row\'s type at or after it, and otherwise of the row gz_i with '
               'unix_time[gz_i] <= t < unix_time[gz_i+1], and that the civil second returned has second ordinal t + offset + epoch (LocalTime: two-step addition without overflow).',
    level_note='Lookup kernel plus the footer date arithmetic: TransOffset is proved against a relational POSIX specification of Jn / n / Mm.w.d dates (unit rule, contracts/rule.h). '
               'NOT decided: TimeZoneInfo::Load (TZif decoding, validation, default-type choice), the year loop of ExtendTransitions, and the 400-year shift for '
               'instants beyond the last row (precondition !extended_). The table invariants are assumed, not proved to be established by Load.',
    trusted_base=ZONE_TRUSTED, not_decided='Load, ExtendTransitions/footer rules, 400-year shift (extended_) - assumed or excluded', assumptions=ZONE_ASSUME,
)
PROPERTIES['C02'] = dict(
    goals=lambda: zone_c02_goals() + civil_second_support(),
    level_text='Proof, for every well-formed table (rows touched), every valid civil second and every hint value, of MakeTime\'s case analysis: before the first row / after '
               'the last row / inside the civil bracket ending at row gz_j it returns SKIPPED at the row whose gap contains cs, REPEATED at the row whose overlap contains cs, '
               'else UNIQUE with the instant cs - offset - epoch (clamped to int64 through civil_min/civil_max at the ends); MakeSkipped/MakeRepeated compute pre/trans/post '
               'exactly (no overflow given the margin), and lemma_prepost shows pre/post are cs read with the offset before/after the change with pre >= trans > post (skipped) '
               'and pre < trans <= post (repeated).',
    level_note='Kernel only (see C01). "exactly one / no / two instants display cs" is established relative to the table rows named by the ghost indices; the global counting '
               'argument over all rows (sortedness + spacing) is not mechanised.',
    trusted_base=ZONE_TRUSTED, not_decided='Load; TimeLocal / extended_ years; global counting argument', assumptions=ZONE_ASSUME,
)
PROPERTIES['C14'] = dict(
    goals=lambda: zone_lemmas() + [enforce('zone', 'BreakTime', timeout=800, **ZD)] + maketime_goals() + civil_second_support(),
    level_text='Proof that the results of BreakTime and MakeTime do not depend on the remembered hints: the relaxed load of local_time_hint_ / time_local_hint_ is modelled as '
               'returning an arbitrary value (ghost gz_hint, unconstrained), the store as invisible, and the postconditions - which do not mention the hint - are proved for every '
               'such value; the functions are const and have an empty assigns clause (frame condition checked by CBMC\'s contract instrumentation).',
    level_note='Covers the per-direction hint state only. NOT decided: the name cache in time_zone_impl.cc (std::map + mutex) and format/parse.',
    trusted_base=ZONE_TRUSTED, not_decided='time_zone_map cache (load_time_zone), format/parse history independence', assumptions=ZONE_ASSUME,
)

PROPERTIES['C10'] = dict(
    goals=lambda: zone_lemmas() + [enforce('zone', f, timeout=800, **ZD) for f in ('LocalTime_TransitionType', 'LocalTime_Transition', 'BreakTime', 'MakeUnique_tp', 'MakeUnique_unix',
                                                                                'MakeSkipped', 'MakeRepeated', 'TimeLocal')] + maketime_goals() + civil_second_support(),
    level_text='Proof, under the stated table well-formedness and margin, that the lookup kernel has no undefined behaviour for ANY int64 instant and ANY valid civil second '
               '(every signed-overflow, conversion, pointer and bounds obligation CBMC generates for LocalTime x2, BreakTime, MakeTime, MakeUnique/Skipped/Repeated and TimeLocal is '
               'discharged, with civil_second arithmetic through its C04/C05 contracts), and of the saturation clauses: a civil second before civil_min / after civil_max of the '
               'governing type converts to exactly min() / max(), the last representable second still converts exactly (MakeTime postconditions with SAT64), and TimeLocal adds '
               'c4_shift * 400 years to each of pre/trans/post saturating at max() (for shifts too large to multiply out: max(), which lemma_tl_sat shows is the saturated sum for '
               'every non-negative instant).',
    level_note='PARTIAL. NOT decided: next_transition / prev_transition, the 400-year branch of BreakTime (excluded by precondition), convert()/lookup wrappers in time_zone.h and '
               'time_zone_lookup.cc, fixed-offset zones, and that Load establishes the assumed well-formedness and margin (finding D6 shows it does not establish the margin for crafted files).',
    trusted_base=ZONE_TRUSTED, not_decided='next/prev_transition; BreakTime beyond the last row in extended zones; Load; public wrappers', assumptions=ZONE_ASSUME,
)


def c03_goals():
    return [G(n, 'zone', harness=n, kind='lemma', replace=['BreakTime', 'MakeTime'], backends=('cvc5bv',), timeout=900, defines=['OSEC_OPAQUE'])
            for n in ('pl_C03_after', 'pl_C03_before', 'pl_C03_inside_a', 'pl_C03_inside_b')]


PROPERTIES['C03'] = dict(
    goals=lambda: zone_lemmas() + [enforce('zone', 'BreakTime', timeout=800, **ZD)] + maketime_goals() + c03_goals() + civil_second_support(),
    level_text='Proof of the instant -> civil -> instant direction as four property lemmas over the CONTRACTS of BreakTime and MakeTime (the two calls are replaced by their '
               'contracts - preconditions asserted, postconditions assumed - on a symbolic table of arbitrary length; both contracts are discharged against the code in the same check): '
               'for t before the first row, at or after the last row, and inside row i\'s interval with the civil second of t before / at-or-after row i+1\'s civil second, looking '
               'the civil second of t up again is never SKIPPED and is UNIQUE with pre == t or REPEATED with t == pre or t == post.  The four scenarios are exhaustive for non-extended '
               'zones; reachability probes (pl_C03_probe_a/b: assertions that must FAIL, run on every check - a probe that does not fail makes the check undecided) confirm the scenario '
               'assumptions are satisfiable and that the REPEATED answer really occurs.',
    level_note='PARTIAL. Assumed per scenario: instances, at rows i, i+1, i+2, 0 and n-1, of the table invariants (WFI/TYWF/MARGIN, order by unix time and by civil time) and of the '
               'spacing "offset changes farther apart than the sum of their sizes" (two days), as in the property\'s quantifier. NOT decided: the converse clause (every instant '
               'returned for a UNIQUE or REPEATED civil second displays that civil second), zones in their footer-extended years (extended_), and Load establishing the invariants.',
    trusted_base=ZONE_TRUSTED, not_decided='converse direction; extended_ years; Load', assumptions=ZONE_ASSUME + ['C library model: malloc in the lemma harness is assumed to succeed'],
)


# ---- vacuity probes: lemma harnesses whose final assertion must FAIL (tools/report.py) ---------------------------------------------------
def _probe(g):
    g.probe = True
    return g


def c03_probes():
    return [_probe(G(n, 'zone', harness=n, kind='lemma', replace=['BreakTime', 'MakeTime'], backends=('cvc5bv',), timeout=900, defines=['OSEC_OPAQUE']))
            for n in ('pl_C03_probe_a', 'pl_C03_probe_b')]


def c05_probes():
    return [_probe(G('pl_C05_probe', 'civil', harness='pl_C05_probe', kind='lemma', replace=['ct_second_plus', 'ct_second_minus'], timeout=600)),
            _probe(G('pl_C05_probe_month', 'civil', harness='pl_C05_probe_month', kind='lemma', replace=['ct_month_plus', 'ct_month_minus'], timeout=600))]


_c03_goals = PROPERTIES['C03']['goals']
PROPERTIES['C03']['goals'] = lambda: _c03_goals() + c03_probes()
_c05_goals = PROPERTIES['C05']['goals']
PROPERTIES['C05']['goals'] = lambda: _c05_goals() + c05_probes()
