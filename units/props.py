"""Which goals decide which property.  A goal = one function enforced against its contract
(callees replaced by their contracts), or one code-free lemma / property lemma."""
from vdriver import Goal

G = Goal


def enforce(unit, f, **kw):
    return G(f, unit, enforce=f, **kw)


def plain(unit, h, **kw):
    return G(h, unit, harness=h, kind='plain', **kw)


# ------------------------------------------------------------------ unit civil
CIVIL_LEMMAS = ['lemma_div146097', 'lemma_div400', 'lemma_fdshift4', 'lemma_fdshift100', 'lemma_fdshift400', 'lemma_fmshift',
                'lemma_leapidx', 'lemma_cong', 'lemma_cong2', 'lemma_period', 'lemma_ordyear', 'lemma_lin_lift', 'lemma_lin_fits',
                'lemma_quot_bounds', 'lemma_shift400', 'lemma_nday_lift', 'lemma_ordbound', 'lemma_valid28', 'lemma_dm_range', 'lemma_split1', 'lemma_split2', 'lemma_dm_small', 'lemma_carry', 'lemma_validday', 'lemma_nmonpre', 'lemma_dm_lin', 'lemma_trunc', 'lemma_dm_mono', 'lemma_validrepr', 'lemma_ordy_mono', 'lemma_dayord_lex', 'lemma_udiff', 'lemma_fits',
                'lemma_I_anchor', 'lemma_I_sk', 'lemma_I_period', 'lemma_I_leapidx', 'lemma_I_fmstep', 'lemma_I_yearstep',
                'lemma_I_centstep', 'lemma_I_4step', 'lemma_I_monthstep', 'lemma_I_day']


def civil_spec_lemmas():
    return [plain('civil', 'pl_' + l, timeout=300) for l in CIVIL_LEMMAS]


def civil_leaves():
    return [enforce('civil', f) for f in ('is_leap_year', 'year_index', 'days_per_century', 'days_per_4years',
                                          'days_per_year', 'days_per_month')]


def civil_nday():
    return [enforce('civil', 'n_day', timeout=400)]


def civil_carry_chain():
    return [enforce('civil', f, timeout=300) for f in ('n_mon', 'n_hour', 'n_min', 'n_sec')] + \
           [enforce('civil', 'align_' + t) for t in ('second', 'minute', 'hour', 'day', 'month', 'year')] + \
           [enforce('civil', 'ct_%s_ctor6' % t, timeout=300) for t in ('second', 'minute', 'hour', 'day', 'month', 'year')]


def civil_c05_goals():
    ts = ('second', 'minute', 'hour', 'day')
    return [enforce('civil', 'step_' + t, timeout=300) for t in ts] + \
           [enforce('civil', 'scale_add'), enforce('civil', 'difference_year'), enforce('civil', 'difference_month')] + \
           [enforce('civil', 'difference_' + t, timeout=300) for t in ('hour', 'minute', 'second')] + \
           [enforce('civil', 'ct_%s_plus' % t, timeout=300) for t in ts] + \
           [enforce('civil', 'ct_%s_diff' % t, timeout=300) for t in ts] + \
           [enforce('civil', 'ct_' + r) for r in ('lt', 'le', 'gt', 'ge', 'eq', 'ne')]


C17_LEMMAS = ['lemma_ord_reduce', 'lemma_fd7shift', 'lemma_wd_period', 'lemma_wd_cong', 'lemma_wd_add']


def civil_c17_goals():
    return [plain('civil', 'pl_' + l, timeout=300) for l in C17_LEMMAS] + \
           [enforce('civil', 'get_weekday', timeout=400), enforce('civil', 'get_yearday'),
            enforce('civil', 'next_weekday', timeout=300), enforce('civil', 'prev_weekday', timeout=300, no_replace=('ct_day_minus',)),
            enforce('civil', 'step_day', timeout=300), enforce('civil', 'ct_day_plus', timeout=300)]


PROPERTIES = {
    'C04': dict(
        goals=lambda: civil_spec_lemmas() + civil_leaves() + civil_nday() + civil_carry_chain(),
        trusted_base=['/verif/stubs/prelude.h (type spellings only)', '/verif/spec/gregorian.h (the specification: ORD, LEAP, DIM, CUM)',
                      'opaque specification symbols (DAYORD, VALIDD, MONBASE, NMON_PRE, ORDI, LEAPI, FMI, IDX400, FD24..FM60) are uninterpreted '
                      'functions whose definitions are assumed only at instantiated argument tuples (REVEAL_* macros in contracts/civil.h)'],
        level_text='Unbounded proof, for all int64 arguments, that the carry chain n_sec -> n_min -> n_hour -> n_mon -> n_day (incl. its four loops, '
                   'with loop invariants and decreases clauses) and the six constructors return the valid date whose day ordinal is the month base plus '
                   'the carried days, with hh/mm/ss the floor remainders, alignment fields reset, no signed overflow / out-of-bounds table access under '
                   'exactly the property\'s representability precondition.  Every obligation CBMC generates from the extracted code and contracts is '
                   'discharged; code-free arithmetic lemmas (400-year periodicity, floor-division shifts) are discharged the same way.',
        level_note='Trusted: the mechanical C++->C extraction rules (listed in evidence), CBMC/solvers, the Gregorian specification macros. '
                   'The alignment conversions between civil types (ct_T_from_ct) are covered through align_T contracts. Not covered: operator<< and the '
                   'std::ostream formatting in civil_time_detail.cc.',
        not_decided='',
        assumptions=[],
    ),
}


def goals_for(pid, tier):
    gs = PROPERTIES[pid]['goals']()
    out = []
    for g in gs:
        if g.tier == 'thorough' and tier != 'thorough':
            continue
        if pid not in g.props:
            g.props.append(pid)
        out.append(g)
    return out


# ------------------------------------------------------------------ unit fixed
def fixed_goals():
    un = dict(unwind=34, backends=('sat', 'cvc5bv'))
    return [enforce('fixed', 'Format02d', **un), enforce('fixed', 'Parse02d', **un),
            enforce('fixed', 'FixedOffsetFromName', timeout=300, **un), enforce('fixed', 'FixedOffsetToName', timeout=300, **un),
            enforce('fixed', 'FixedOffsetToAbbr', timeout=300, **un),
            G('pl_C15_roundtrip', 'fixed', harness='pl_C15_roundtrip', kind='lemma', timeout=300, **un),
            G('pl_C15_far_is_utc', 'fixed', harness='pl_C15_far_is_utc', kind='lemma', timeout=300, **un)]


NOT_YET = {}

PROPERTIES['C05'] = dict(
    goals=lambda: civil_spec_lemmas() + civil_leaves() + civil_nday() + civil_carry_chain() + civil_c05_goals(),
    trusted_base=['/verif/stubs/prelude.h', '/verif/spec/gregorian.h',
                  'ASSUMED (not yet discharged) contract: impl::day_difference / impl::ymd_ord return DAYORD(1) - DAYORD(2) - used by difference_day and above',
                  'opaque specification symbols with definitions assumed at instantiated tuples (REVEAL_* macros)'],
    level_text='Unbounded proof, for all valid civil times with int64 years and all int64 n within the representability bound, that for the second, minute, '
               'hour and day alignments a + n moves the unit ordinal by exactly n (step_T through the carry chain proved under C04), that the difference of two '
               'civil times is the difference of their unit ordinals given the day difference (scale_add chain, no intermediate overflow), and that the '
               'relational operators are the lexicographic order on the six fields; code-free lemmas show the day ordinal orders valid dates exactly like '
               '(year, month, day) (lemma_dayord_lex), so the order agrees with the sign of the difference.',
    level_note='NOT discharged and therefore only assumed: the contract of impl::day_difference/ymd_ord (day difference across 400-year reductions); operator-(n) '
               'incl. n = INT64_MIN; the month and year alignments (step_month, step_year, ct_month_*, ct_year_*); the two inverse laws as composed lemmas. '
               'These parts are not counted as proved.',
    not_decided='day_difference/ymd_ord bodies; operator-(n); month and year alignment arithmetic; composed inverse laws',
    assumptions=['contract of impl::day_difference assumed (see trusted_base)'],
)


PROPERTIES['C15'] = dict(
    goals=fixed_goals,
    level_text='Proof (all int64 offsets; all name strings up to the 31-byte capacity of the string model) that FixedOffsetToName/ToAbbr render exactly the '
               'documented text, FixedOffsetFromName accepts exactly UTC, UTC0 and well-formed names totalling at most 24h and returns the signed total, and '
               'that FromName(ToName(off)) == off. Loops of the string model are unwound to the model capacity with unwinding assertions (complete).',
    level_note='std::string is an executable C model (stubs/vstr.h, trusted); strchr is CBMC\'s built-in model. The zone-level half (a fixed zone reports '
               'that offset at every instant) is not decided here.',
    trusted_base=['/verif/stubs/vstr.h (executable model of the std::string subset; capacity 32 bytes)',
                  'CBMC built-in model of strchr', '/verif/stubs/prelude.h'],
    not_decided='zone-level half (lookup of a fixed zone reports that offset at every instant; name cache identity) is decided under C01/C14, not here',
    assumptions=['names longer than 31 bytes are outside the std::string model (the code only compares their length)'],
)


# ------------------------------------------------------------------ unit zone
ZONE_LEMMAS = ['lemma_epoch', 'lemma_secrepr', 'lemma_osec_lex']


def zone_c01_goals():
    return [plain('zone', 'pl_' + l, timeout=300) for l in ZONE_LEMMAS] + \
           [enforce('zone', f, timeout=300) for f in ('LocalTime_TransitionType', 'LocalTime_Transition', 'BreakTime')]
