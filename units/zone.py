"""Unit `zone`: the lookup kernel of src/time_zone_info.cc (C01, C02, C03, C06, C10, C11, C14)
together with the civil-time functions it calls (extracted from the header as in unit civil)."""
import os
import civil
import stdstubs
import civil_loops

CC = 'src/time_zone_info.cc'
H = 'src/time_zone_info.h'
TZH = 'include/cctz/time_zone.h'
VERIF = os.path.dirname(os.path.dirname(os.path.abspath(__file__)))
MUST_FIRE = {'R14': 20, 'R15': 1, 'R17': 3, 'R6': 5, 'R9op': 20}
EXPECTED_LOOPS = {'n_day': 4, 'next_weekday': 2, 'prev_weekday': 2, 'NextTransition': 1, 'PrevTransition': 1}
CONTRACT_HEADERS = [os.path.join(VERIF, 'contracts', 'civil.h'), os.path.join(VERIF, 'contracts', 'zone.h')]


def build(u):
    civil.build_types(u)
    civil.build_functions(u)
    u.loop_contracts.update(civil_loops.LOOPS)
    u.pre_loop.update(civil_loops.GHOST)
    u.stmt_hooks.update(civil_loops.HOOKS)
    stdstubs.install(u.ctx)
    stdstubs.install_zone(u.ctx)
    u.extra_includes.append(os.path.join(VERIF, 'stubs', 'vstr.h'))
    # lookup result types (nested in class time_zone)
    u.struct(TZH, 'absolute_lookup')
    u.struct_nested_in(TZH, 'civil_lookup', r'\bstruct\s+civil_lookup\s*\{', 'time_zone')
    u.struct(TZH, 'civil_transition')
    # zone tables
    # R19: both table element types are 48 bytes; padded to 64 so that pointer <-> index conversion is a shift, not a division
    u.struct_pad = {'Transition': 16, 'TransitionType': 16}
    u.struct(H, 'Transition')
    u.struct(H, 'TransitionType')
    # const Transition& / const TransitionType& parameters are passed by value (trivially copyable, never aliased or stored)
    u.ctx.value_ref_types |= {'Transition', 'TransitionType'}
    u.vector_type('Transition')
    # R18: local iterator pointers into transitions_ are dereferenced relative to the begin pointer of the same function
    u.ctx.rebase = {'BreakTime': {'tr': 'begin'}, 'MakeTime': {'tr': 'begin'}, 'NextTransition': {'tr': 'begin'}, 'PrevTransition': {'tr': 'begin'}}
    u.vector_type('TransitionType')
    members = u.class_members(H, 'TimeZoneInfo')
    u.ctx.self_members = members
    for c in ['kDaysPerYear', 'kMonthOffsets', 'kSecsPerDay', 'kSecsPer400Years', 'kSecsPerYear']:
        u.global_const(CC, c)
    u.extra_includes.append(os.path.join(VERIF, 'stubs', 'zone_stubs.h'))
    for fn in ['IsLeap', 'ToPosixWeekday', 'MakeSkipped', 'MakeRepeated', 'YearShift']:
        u.function(CC, fn)
    u.functions_overloaded(CC, 'MakeUnique', lambda ps, tag, d: 'MakeUnique_tp' if ps[0].typ == 'time_point_s' else 'MakeUnique_unix',
                           expect=2, head_re=r'inline\s+time_zone::civil_lookup\s+MakeUnique\s*(?=\()')
    u.function(CC, 'EquivTransitions', method_of='TimeZoneInfo')
    u.functions_overloaded(CC, 'LocalTime', lambda ps, tag, d: 'LocalTime_' + ps[1].typ, expect=2, method_of='TimeZoneInfo')
    for fn in ['TimeLocal', 'BreakTime', 'MakeTime', 'NextTransition', 'PrevTransition']:
        u.function(CC, fn, method_of='TimeZoneInfo')
    u.contracts_header = os.path.join(VERIF, 'contracts', 'zone.h')
    u.harness_files = [os.path.join(VERIF, 'harness', 'civil.c'), os.path.join(VERIF, 'harness', 'zone.c')]
    import zone_loops
    u.loop_contracts.update(zone_loops.LOOPS)
    u.pre_loop.update(zone_loops.GHOST)
    u.stmt_hooks.update(zone_loops.HOOKS)
