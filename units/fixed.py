"""Unit `fixed`: src/time_zone_fixed.cc  (property C15, name <-> offset half)."""
import os
import stdstubs

CC = 'src/time_zone_fixed.cc'
VERIF = os.path.dirname(os.path.dirname(os.path.abspath(__file__)))
MUST_FIRE = {'R14': 10, 'R12': 2, 'R17': 1, 'R3': 3}
EXPECTED_LOOPS = {}


def build(u):
    stdstubs.install(u.ctx)
    u.extra_includes.append(os.path.join(VERIF, 'stubs', 'vstr.h'))
    u.global_const(CC, 'kFixedZonePrefix')
    u.global_const(CC, 'kDigits')
    for fn in ['Format02d', 'Parse02d', 'FixedOffsetFromName', 'FixedOffsetToName', 'FixedOffsetToAbbr']:
        u.function(CC, fn)
    u.contracts_header = os.path.join(VERIF, 'contracts', 'fixed.h')
    u.harness_files = [os.path.join(VERIF, 'harness', 'fixed.c')]
