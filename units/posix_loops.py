"""Loop contracts / ghost code for unit posix."""
LOOPS = {}
GHOST = {}
HOOKS = {}

# ParseInt: p walks forward over digits inside the text; the NUL terminator is not a digit (strchr finds it at index 10 -> break)
LOOPS['ParseInt'] = {
    1: """__CPROVER_assigns(p, dp, value)
__CPROVER_loop_invariant(__CPROVER_same_object(p, op) && __CPROVER_POINTER_OFFSET(op) <= __CPROVER_POINTER_OFFSET(p) && (size_t)__CPROVER_POINTER_OFFSET(p) <= gs_n - 1)
__CPROVER_loop_invariant(0 <= value)
__CPROVER_loop_invariant(__CPROVER_POINTER_OFFSET(p) > __CPROVER_POINTER_OFFSET(op) ==> IS_DIGIT(*(p - 1)))
__CPROVER_decreases(gs_n - (size_t)__CPROVER_POINTER_OFFSET(p))""",
}

# ParseOffset: ghost mirrors of the parsed numbers (contracts/posix.h)
GHOST['ParseOffset'] = {}
HOOKS['ParseOffset'] = [
    (r'int hours = 0 ;', 'gp_h = 0; gp_m = 0; gp_s = 0;', 'after'),
    (r'p = ParseInt \( p , min_hour , max_hour , & hours \) ;', 'gp_h = hours;', 'after'),
    (r'p = ParseInt \( p \+ 1 , 0 , 59 , & minutes \) ;', 'gp_m = minutes;', 'after'),
    (r'p = ParseInt \( p \+ 1 , 0 , 59 , & seconds \) ;', 'gp_s = seconds;', 'after'),
]
