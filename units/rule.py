"""Unit `rule`: the POSIX footer date arithmetic of src/time_zone_info.cc (TransOffset, IsLeap, ToPosixWeekday) - part of C01."""
import os
import stdstubs

CC = 'src/time_zone_info.cc'
H = 'src/time_zone_posix.h'
VERIF = os.path.dirname(os.path.dirname(os.path.abspath(__file__)))
MUST_FIRE = {}
EXPECTED_LOOPS = {}


def build(u):
    stdstubs.install(u.ctx)
    u.extra_includes.append(os.path.join(VERIF, 'stubs', 'vstr.h'))
    u.struct_nested(H, 'PosixTransition')
    u.struct(H, 'PosixTimeZone')
    for c in ['kDaysPerYear', 'kMonthOffsets', 'kSecsPerDay']:
        u.global_const(CC, c)
    for fn in ['AllYearDST', 'TransOffset']:
        u.function(CC, fn)
    u.contracts_header = os.path.join(VERIF, 'contracts', 'rule.h')
    u.harness_files = [os.path.join(VERIF, 'harness', 'rule.c')]
