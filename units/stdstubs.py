"""Mappings of the std:: library subset onto the trusted C models in /verif/stubs (rule R14)."""
from cxx2c import fire, ExtractError


def install(ctx):
    ctx.type_names.add('vstr')

    def m_count(em, o, ot, op, args):
        fire('R14')
        return o, 'int_fast64_t'
    ctx.stub_methods[('seconds_t', 'count')] = m_count

    def m_size(em, o, ot, op, args):
        fire('R14')
        return '%s%ssize' % (o, op), 'size_t'
    ctx.stub_methods[('vstr', 'size')] = m_size

    def m_data(em, o, ot, op, args):
        fire('R14')
        return '%s%sdata' % (o, op), 'const char*'
    ctx.stub_methods[('vstr', 'data')] = m_data
    ctx.stub_methods[('vstr', 'c_str')] = m_data
    ctx.stub_methods[('vstr', 'begin')] = m_data

    def m_empty(em, o, ot, op, args):
        fire('R14')
        return '(%s%ssize == 0)' % (o, op), 'bool'
    ctx.stub_methods[('vstr', 'empty')] = m_empty

    def m_erase(em, o, ot, op, args):
        fire('R14')
        a = [em.emit(x)[0] for x in args]
        addr = ('&' + o) if op == '.' else o
        return 'vstr_erase(%s, %s)' % (addr, ', '.join(a)), 'void'
    ctx.stub_methods[('vstr', 'erase')] = m_erase

    def m_compare(em, o, ot, op, args):
        fire('R14')
        if len(args) != 3:
            raise ExtractError('std::string::compare: only the (pos, len, const char*) form is in the subset')
        a = [em.emit(x)[0] for x in args]
        addr = ('&' + o) if op == '.' else o
        return 'vstr_compare(%s, %s)' % (addr, ', '.join(a)), 'int'
    ctx.stub_methods[('vstr', 'compare')] = m_compare

    def m_assign(em, o, ot, op, args):
        fire('R14')
        a = [em.emit(x)[0] for x in args]
        addr = ('&' + o) if op == '.' else o
        return 'vstr_assign(%s, %s)' % (addr, ', '.join(a)), 'void'
    ctx.stub_methods[('vstr', 'assign')] = m_assign

    def f_strchr(em, args):
        fire('R14')
        a = [em.emit(x)[0] for x in args]
        return 'strchr(%s)' % ', '.join(a), 'const char*'
    ctx.free_stubs['std::strchr'] = f_strchr
    ctx.free_stubs['strchr'] = f_strchr

    def f_equal(em, args):
        fire('R14')
        a = [em.emit(x)[0] for x in args]
        return 'valg_equal_char(%s)' % ', '.join(a), 'bool'
    ctx.free_stubs['std::equal'] = f_equal

    def f_copy_n(em, args):
        fire('R14')
        a = [em.emit(x)[0] for x in args]
        return '((char*)valg_copy_n_char(%s))' % ', '.join(a), 'char*'
    ctx.free_stubs['std::copy_n'] = f_copy_n


def install_zone(ctx):
    """std::vector reads, std::atomic hints, upper/lower_bound, To/FromUnixSeconds (R14)"""
    def v_size(em, o, ot, op, args):
        fire('R14'); return '%s%ssize' % (o, op), 'size_t'
    def v_empty(em, o, ot, op, args):
        fire('R14'); return '(%s%ssize == 0)' % (o, op), 'bool'
    def v_back(em, o, ot, op, args):
        fire('R14'); return '%s%sdata[%s%ssize - 1]' % (o, op, o, op), ot[4:]
    def v_front(em, o, ot, op, args):
        fire('R14'); return '%s%sdata[0]' % (o, op), ot[4:]
    for vt in ('vec_Transition', 'vec_TransitionType'):
        ctx.stub_methods[(vt, 'size')] = v_size
        ctx.stub_methods[(vt, 'empty')] = v_empty
        ctx.stub_methods[(vt, 'back')] = v_back
        ctx.stub_methods[(vt, 'front')] = v_front

    def a_load(em, o, ot, op, args):
        fire('R14'); return 'vatomic_load_hint()', 'size_t'
    def a_store(em, o, ot, op, args):
        fire('R14')
        v = em.emit(args[0])[0]
        return 'vatomic_store_hint(%s)' % v, 'void'
    ctx.stub_methods[('atomic_size_t', 'load')] = a_load
    ctx.stub_methods[('atomic_size_t', 'store')] = a_store
    ctx.const_exprs['std::memory_order_relaxed'] = ('0', 'int')
    ctx.const_exprs['memory_order_relaxed'] = ('0', 'int')

    def mk_bound(which):
        def f(em, args):
            fire('R14')
            a = [em.emit(x) for x in args]
            cmp_ = a[3][0]          # e.g. Transition_ByUnixTime
            return 'valg_%s_%s(%s, %s, &(%s))' % (which, cmp_, a[0][0], a[1][0], a[2][0]), 'const Transition*'
        return f
    ctx.free_stubs['std::upper_bound'] = mk_bound('upper_bound')
    ctx.free_stubs['std::lower_bound'] = mk_bound('lower_bound')

    def to_unix(em, args):
        fire('R14'); return '((int_fast64_t)(%s))' % em.emit(args[0])[0], 'int_fast64_t'
    def from_unix(em, args):
        fire('R14'); return '((time_point_s)(%s))' % em.emit(args[0])[0], 'time_point_s'
    ctx.functors = {'Transition::ByUnixTime': 'Transition_ByUnixTime', 'Transition::ByCivilTime': 'Transition_ByCivilTime'}
    ctx.free_stubs['ToUnixSeconds'] = to_unix
    ctx.free_stubs['FromUnixSeconds'] = from_unix
