"""Unit `civil`: include/cctz/civil_time_detail.h  (properties C04, C05, C17)."""
import os
import re
from cxx2c import ExtractError, TAGS, fire

H = 'include/cctz/civil_time_detail.h'
VERIF = os.path.dirname(os.path.dirname(os.path.abspath(__file__)))

MUST_FIRE = {'R1': 30, 'R3': 10, 'R6': 20, 'R7': 6, 'R9': 20, 'R9op': 2, 'R11': 6, 'R13': 20}
EXPECTED_LOOPS = {'n_day': 4, 'next_weekday': 2, 'prev_weekday': 2}


def build_types(u):
    u.typedef_using(H, ['year_t', 'diff_t', 'month_t', 'day_t', 'hour_t', 'minute_t', 'second_t'])
    u.struct(H, 'fields')
    u.enum_class(H, 'weekday')


def build_functions(u, with_weekday=True):
    s = u.src(H)
    for fn in ['is_leap_year', 'year_index', 'days_per_century', 'days_per_4years', 'days_per_year',
               'days_per_month', 'n_day', 'n_mon', 'n_hour', 'n_min', 'n_sec', 'scale_add', 'ymd_ord',
               'day_difference']:
        u.function(H, fn)
    for fn in ['step', 'difference', 'align']:
        u.functions_overloaded(H, fn, lambda ps, tag, d, fn=fn: '%s_%s' % (fn, tag), expect=6,
                               head_re=r'CONSTEXPR_F\s+\w+\s+%s\s*(?=\()' % fn)
    # civil_time<T> members, once per alignment tag
    st, body, en = s.find_block(r'\bclass\s+civil_time\s*\{', 'class civil_time')
    within = (st, en)
    for tag in TAGS:
        T = tag
        u.function(H, 'civil_time', cname='ct_%s_ctor6' % T, key='ct_%s_ctor6' % T, ret='civil:' + T, within=within, template_T=T,
                   head_re=r'explicit\s+CONSTEXPR_M\s+civil_time\s*(?=\(year_t)')
        u.function(H, 'civil_time', cname='ct_%s_default' % T, key='ct_%s_default' % T, ret='civil:' + T, within=within, template_T=T,
                   head_re=r'CONSTEXPR_M\s+civil_time\s*(?=\(\s*\)\s*noexcept)')
        u.function(H, 'civil_time', cname='ct_%s_from_fields' % T, key='ct_%s_from_fields' % T, ret='civil:' + T, within=within, template_T=T,
                   head_re=r'explicit\s+CONSTEXPR_M\s+civil_time\s*(?=\(fields)')
        # the two converting constructors have the same body; both are extracted and must agree
        ds = s.find_defs(r'CONSTEXPR_M\s+civil_time\s*(?=\(const\s+civil_time<U>&)', within)
        if len(ds) != 2:
            raise ExtractError('converting constructors: expected 2, found %d' % len(ds))
        if ds[0]['init'] != ds[1]['init']:
            raise ExtractError('the implicit and explicit converting constructors differ')
        u.function(H, 'civil_time', cname='ct_%s_from_ct' % T, key='ct_%s_from_ct' % T, ret='civil:' + T, within=within, template_T=T,
                   head_re=r'(?<!explicit )CONSTEXPR_M\s+civil_time\s*(?=\(const\s+civil_time<U>&)')
        u.function(H, 'max', cname='ct_%s_max' % T, key='ct_%s_max' % T, ret='civil:' + T, within=within, template_T=T,
                   head_re=r'static\s+CONSTEXPR_F\s+auto\s+\(max\)\s*(?=\()')
        u.function(H, 'min', cname='ct_%s_min' % T, key='ct_%s_min' % T, ret='civil:' + T, within=within, template_T=T,
                   head_re=r'static\s+CONSTEXPR_F\s+auto\s+\(min\)\s*(?=\()')
        u.function(H, 'operator+', cname='ct_%s_plus' % T, key='ct_%s_plus' % T, ret='civil:' + T, within=within, template_T=T,
                   head_re=r'friend\s+CONSTEXPR_F\s+civil_time\s+operator\+\s*(?=\(civil_time a)')
        u.function(H, 'operator+', cname='ct_%s_plus_r' % T, key='ct_%s_plus_r' % T, ret='civil:' + T, within=within, template_T=T,
                   head_re=r'friend\s+CONSTEXPR_F\s+civil_time\s+operator\+\s*(?=\(diff_t n)')
        u.function(H, 'operator-', cname='ct_%s_minus' % T, key='ct_%s_minus' % T, ret='civil:' + T, within=within, template_T=T,
                   head_re=r'friend\s+CONSTEXPR_F\s+civil_time\s+operator-\s*(?=\(civil_time a)')
        u.function(H, 'operator-', cname='ct_%s_diff' % T, key='ct_%s_diff' % T, ret='diff_t', within=within, template_T=T,
                   head_re=r'friend\s+CONSTEXPR_F\s+diff_t\s+operator-\s*(?=\(civil_time lhs)')
    # relational operators (templates over T1,T2; operands are all `fields` in C)
    for op, nm in [('<', 'lt'), ('<=', 'le'), ('>=', 'ge'), ('>', 'gt'), ('==', 'eq'), ('!=', 'ne')]:
        u.function(H, 'operator' + op, cname='ct_' + nm, key='ct_' + nm, ret='bool', template_T='second',
                   head_re=r'CONSTEXPR_F\s+bool\s+operator%s\s*(?=\(const)' % re.escape(op))
    if with_weekday:
        for fn in ['get_weekday', 'next_weekday', 'prev_weekday', 'get_yearday']:
            u.function(H, fn)


def build(u):
    build_types(u)
    build_functions(u)
    u.contracts_header = os.path.join(VERIF, 'contracts', 'civil.h')
    u.harness_files = [os.path.join(VERIF, 'harness', 'civil.c')]
    import civil_loops
    u.loop_contracts.update(civil_loops.LOOPS)
    u.pre_loop.update(civil_loops.GHOST)
    u.stmt_hooks.update(civil_loops.HOOKS)
