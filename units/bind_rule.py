"""Native bindings of unit rule (TransOffset) to the REAL cctz code: the anonymous-namespace function is reached by #including the real .cc."""
import glob
import os
PRELUDE = r'''
#include <cstdint>
#include <cstdio>
#include <cstring>
#include "time_zone_info.cc"
typedef __int128 Z;
using namespace cctz;
#define PosixTransition_J PosixTransition::J
#define PosixTransition_N PosixTransition::N
#define PosixTransition_M PosixTransition::M
#define __CPROVER_is_fresh(p, n) 1
'''
NATIVE_OPAQUE = ''


def EXTRA_SOURCES(repo):
    skip = ('_test.cc', 'benchmark', 'time_tool.cc', 'time_zone_info.cc')
    return [f for f in sorted(glob.glob(os.path.join(repo, 'src', '*.cc'))) if not f.endswith(skip) and 'benchmark' not in f]


BIND = {
    'TransOffset': dict(call='TransOffset(leap_year, jan1_weekday, *pt)', show='std::printf("result %lld\\n", (long long)rv_);'),
}
