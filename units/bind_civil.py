"""Native bindings of the extracted functions of unit civil to the REAL cctz code (for replay)."""
PRELUDE = r'''
#include <cstdint>
#include <cstdio>
#include <climits>
#include "cctz/civil_time.h"
typedef __int128 Z;
using cctz::year_t; using cctz::diff_t;
using namespace cctz::detail;
using namespace cctz::detail::impl;
typedef cctz::detail::fields fields;
typedef cctz::detail::weekday weekday;
template <typename CT> static fields F(const CT& c) { return fields(c.year(), c.month(), c.day(), c.hour(), c.minute(), c.second()); }
template <typename CT> static CT C(const fields& f) { return CT(f.y, f.m, f.d, f.hh, f.mm, f.ss); }
'''


# native meaning of the opaque specification symbols (their definitions)
NATIVE_OPAQUE = r'''
#define __CPROVER_uninterpreted_dayord(y, m, d) ORD(y, m, d)
#define __CPROVER_uninterpreted_validd(y, m, d) (VALID_YMD(y, m, d) ? 1 : 0)
#define __CPROVER_uninterpreted_monbase(y, m) ORD(NMON_Y1(y, m), NMON_M1(m), 1)
#define __CPROVER_uninterpreted_nmon_pre(y, m, d, cd) (NMON_PRE_DEF(y, m, d, cd) ? 1 : 0)
#define __CPROVER_uninterpreted_nday_pre(y, m, d, cd) (NDAY_PRE_DEF(y, m, d, cd) ? 1 : 0)
#define __CPROVER_uninterpreted_idx400(x) ((int)FM(x, 400))
#define __CPROVER_uninterpreted_ordi(e, m, d) ORD_I(e, m, d)
#define __CPROVER_uninterpreted_leapi(e) (LEAP_I(e) ? 1 : 0)
#define __CPROVER_uninterpreted_fmi(e) FM400_I(e)
#define __CPROVER_uninterpreted_mul24(x) ((Z)(x) * 24)
#define __CPROVER_uninterpreted_mul60(x) ((Z)(x) * 60)
#define __CPROVER_uninterpreted_fd24(x) FD((Z)(x), 24)
#define __CPROVER_uninterpreted_fm24(x) FM((Z)(x), 24)
#define __CPROVER_uninterpreted_fd60(x) FD((Z)(x), 60)
#define __CPROVER_uninterpreted_fm60(x) FM((Z)(x), 60)
#define __CPROVER_uninterpreted_wday(ord) ((int)WD(ord))
'''


def EXTRA_SOURCES(repo):
    return []


def _f(call):
    return dict(call=call, show='std::printf("result %lld-%d-%d %d:%d:%d\\n", (long long)rv_.y, rv_.m, rv_.d, rv_.hh, rv_.mm, rv_.ss);')


def _s(call):
    return dict(call=call, show='std::printf("result %lld\\n", (long long)rv_);')


BIND = {
    'is_leap_year': _s('is_leap_year(y)'),
    'year_index': _s('year_index(y, m)'),
    'days_per_century': _s('days_per_century(yi)'),
    'days_per_4years': _s('days_per_4years(yi)'),
    'days_per_year': _s('days_per_year(y, m)'),
    'days_per_month': _s('days_per_month(y, m)'),
    'n_day': _f('n_day(y, m, d, cd, hh, mm, ss)'),
    'n_mon': _f('n_mon(y, m, d, cd, hh, mm, ss)'),
    'n_hour': _f('n_hour(y, m, d, cd, hh, mm, ss)'),
    'n_min': _f('n_min(y, m, d, hh, ch, mm, ss)'),
    'n_sec': _f('n_sec(y, m, d, hh, mm, ss)'),
    'scale_add': _s('scale_add(v, f, a)'),
    'ymd_ord': _s('ymd_ord(y, m, d)'),
    'day_difference': _s('day_difference(y1, m1, d1, y2, m2, d2)'),
}
TAGS = ['second', 'minute', 'hour', 'day', 'month', 'year']
for t in TAGS:
    BIND['align_' + t] = _f('align(%s_tag{}, f)' % t)
    BIND['step_' + t] = _f('step(%s_tag{}, f, n)' % t)
    BIND['difference_' + t] = _s('difference(%s_tag{}, f1, f2)' % t)
    BIND['ct_%s_ctor6' % t] = _f('F(cctz::civil_%s(y, m, d, hh, mm, ss))' % t)
    BIND['ct_%s_plus' % t] = _f('F(C<cctz::civil_%s>(a) + n)' % t)
    BIND['ct_%s_minus' % t] = _f('F(C<cctz::civil_%s>(a) - n)' % t)
    BIND['ct_%s_diff' % t] = _s('(C<cctz::civil_%s>(lhs) - C<cctz::civil_%s>(rhs))' % (t, t))
BIND['get_weekday'] = _s('(int)get_weekday(C<cctz::civil_second>(cs))')
BIND['get_yearday'] = _s('get_yearday(C<cctz::civil_second>(cs))')
BIND['next_weekday'] = _f('F(next_weekday(C<cctz::civil_day>(cd), wd))')
BIND['prev_weekday'] = _f('F(prev_weekday(C<cctz::civil_day>(cd), wd))')
