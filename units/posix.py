"""Unit `posix`: src/time_zone_posix.cc + time_zone_posix.h  (property C16; also used by C12)."""
import os
import stdstubs

CC = 'src/time_zone_posix.cc'
H = 'src/time_zone_posix.h'
VERIF = os.path.dirname(os.path.dirname(os.path.abspath(__file__)))
MUST_FIRE = {'R14': 6, 'R12': 1, 'R13': 4, 'R11': 1}
EXPECTED_LOOPS = {}


def build_types(u):
    stdstubs.install(u.ctx)
    u.extra_includes.append(os.path.join(VERIF, 'stubs', 'vstr.h'))
    u.struct_nested(H, 'PosixTransition')
    u.struct(H, 'PosixTimeZone')


def build_functions(u):
    u.global_const(CC, 'kDigits')
    for fn in ['ParseInt', 'ParseAbbr', 'ParseOffset', 'ParseDateTime', 'ParsePosixSpec']:
        u.function(CC, fn)


def build(u):
    u.defines = ['VSTR_CAP=32']
    build_types(u)
    build_functions(u)
    u.contracts_header = os.path.join(VERIF, 'contracts', 'posix.h')
    u.harness_files = [os.path.join(VERIF, 'harness', 'posix.c')]
    import posix_loops
    u.loop_contracts.update(posix_loops.LOOPS)
    u.pre_loop.update(posix_loops.GHOST)
    u.stmt_hooks.update(posix_loops.HOOKS)
