"""Loop contracts and ghost code spliced into the extracted functions of unit civil.

LOOPS[f][n]  : contract clauses of the n-th loop of f (1-based, source order)
GHOST[f][0]  : ghost declarations at function entry;  GHOST[f][n]: immediately before loop n
HOOKS[f]     : (regex on the first tokens of a statement, ghost text) - ghost text is inserted
               immediately before the one statement the regex matches (must match exactly once)

Ghost code only declares const ghost values, calls lemma functions whose contracts are proved
separately (harness/civil.c) and have `assigns()`, or states a cut (assert P; assume P).  It is
compiled only under VERIF_CBMC; the native differential build of the extracted C omits it.

n_day proof idea.  With qc=cd/146097, qd=d/146097 (truncating, as the code computes them) the
code first moves K = 400*(qc+qd) years in bulk; everything after that happens within a few
hundred years of y%400.  So all in-function facts are stated on the *small* year E = ey - K and
on 32-bit ordinals ORD_I; the passage to the real 64-bit year / 128-bit ordinal is the job of
the code-free lemmas lemma_shift400 and lemma_nday_lift.
"""

NDAY_GHOST0 = """
const int g_m0 = m;
const diff_t g_d0 = d;
const diff_t g_cd0 = cd;
const year_t g_qc = cd / 146097;
const year_t g_qd = d / 146097;
const diff_t g_rc = cd % 146097;
const diff_t g_rd = d % 146097;
const int g_j1 = (g_rc < 0) ? 1 : 0;
USE(lemma_quot_bounds_REQ(cd, d, g_qc, g_qd, g_rc, g_rd), lemma_quot_bounds_ENS(cd, d, g_qc, g_qd, g_rc, g_rd), "quot_bounds");
"""
# The quotients/remainders by 146097 are named once at entry, spelled exactly as the code spells them (so the
# divisions are shared with the code's own); everything else is spelled over those names.
QC = "g_qc"
QD = "g_qd"
ZE = "LIFT_E(ey, g_qc, g_qd)"          # (Z)ey - (Z)K : the small year, 128-bit
E = "((int)LIFT_E(ey, g_qc, g_qd))"    # the small year, int
R = "LIFT_R(g_rc, g_rd)"
O = "((int)(oey))"
CYC = "(m > 2 ? 1 : 0)"
RHS = "(ORDI(%s, g_m0, 1) + %s - 1)" % (O, R)
CONS_Y = "(ORDI(%s, m, 1) + (int)d - 1 == %s)" % (E, RHS)
CONS_M = "(ORDI(%s, m, 1) + (int)d - 1 == %s)" % (E, RHS)     # same law; m varies in the month loop
EB = lambda lo, hi: "(%d <= %s && %s <= %d)" % (lo, ZE, ZE, hi)


def SHIFT(x, e):
    return 'USE(lemma_shift400_REQ(%s, %s, %s, %s), lemma_shift400_ENS(%s, %s, %s, %s), "shift400");' % (x, QC, QD, e, x, QC, QD, e)


def cut(P, msg):
    return 'STEP(%s, "%s");' % (P, msg)


def use(lemma, args, msg=None):
    a = ', '.join(args)
    return 'USE(lemma_%s_REQ(%s), lemma_%s_ENS(%s), "%s");' % (lemma, a, lemma, a, msg or lemma)


A1 = "(0 <= cd && cd < 146097 && cd == g_rc + 146097 * g_j1 && (Z)ey == (Z)oey + (Z)%s * 400 - 400 * g_j1 && -400 < oey && oey < 400)" % QC
A2 = "(d == (diff_t)%s + 146097 * g_j1 && %s == %s - 400 * g_j1 && m == g_m0 && -146097 < d && d < 2 * 146097)" % (R, ZE, O)
CUT_A = "(1 <= d && d <= 146097 && m == g_m0 && %s && %s)" % (EB(-1300, 800), CONS_Y)
CUT_B = "(1 <= d && d <= 366 && m == g_m0 && %s && %s)" % (EB(-1300, 1300), CONS_Y)


def period(j):
    return use('I_period', [O, "(%s)" % j, 'g_m0', '1'], 'I_period')


YEAR_COMMON = """
__CPROVER_loop_invariant(1 <= d && d <= g_DA && g_DA <= 146097 && m == g_m0)
__CPROVER_loop_invariant(-1300 <= g_EA && g_EA <= 800 && %s)
__CPROVER_loop_invariant(g_EA <= %s && %s - g_EA <= 400 && 365 * (%s - g_EA) <= g_DA - (int)d)
__CPROVER_loop_invariant(%s)
""" % (EB(-1300, 1300), E, E, E, CONS_Y)
YI_INV = "__CPROVER_loop_invariant(0 <= yi && yi < 400 && yi == FMI(%s + %s))\n" % (E, CYC)

LOOPS = {
    'n_day': {
        1: "__CPROVER_assigns(d, ey, yi)" + YEAR_COMMON + YI_INV + "__CPROVER_decreases(d)",
        2: "__CPROVER_assigns(d, ey, yi)" + YEAR_COMMON + YI_INV + "__CPROVER_decreases(d)",
        3: "__CPROVER_assigns(d, ey)" + YEAR_COMMON + "__CPROVER_decreases(d)",
        4: """__CPROVER_assigns(d, ey, m)
__CPROVER_loop_invariant(1 <= m && m <= 12 && 1 <= d && d <= g_DB && g_DB <= 366)
__CPROVER_loop_invariant(-1300 <= g_EB && g_EB <= 1300 && %s)
__CPROVER_loop_invariant(g_EB <= %s && %s - g_EB <= 2 && 28 * (12 * (%s - g_EB) + (m - g_m0)) <= g_DB - (int)d)
__CPROVER_loop_invariant(%s)
__CPROVER_decreases(d)""" % (EB(-1300, 1400), E, E, E, CONS_M),
    },
}
GHOST = {
    'n_day': {
        0: NDAY_GHOST0,
        1: "const int g_EA = %s;\nconst int g_DA = (int)d;" % E,
        4: "const int g_EB = %s;\nconst int g_DB = (int)d;" % E,
    },
}
LEAPSTEP = lambda e: use('I_leapidx', [e])
HOOKS = {
    'n_day': [
        (r'ey \+= \( d / 146097 \) \* 400', cut(A1, "ghost cut A1: carry days reduced into [0,146097)")),
        (r'if \( d > 0 \)', cut(A2, "ghost cut A2: days reduced") + "\n" + period("-g_j1") + "\n" + cut(CONS_Y, "ghost cut A3: conservation law holds after the reduction")),
        (r'd -= 146097 ;', period("-g_j1 + 1") + "\n" + cut(CUT_A, "ghost cut A(i): one more cycle removed"), 'after'),
        (r'd \+= 146097 ;', period("-g_j1 - 1") + "\n" + cut(CUT_A, "ghost cut A(ii): one cycle borrowed"), 'after'),
        # the previous-year shortcut: ey -= 1; d += days_per_year(ey, m)
        (r'd \+= days_per_year \( ey , m \)', "const diff_t g_dsc = d;\n" + SHIFT("ey + %s" % CYC, "%s + %s" % (E, CYC)) + "\n" +
            LEAPSTEP("%s + %s" % (E, CYC)) + "\n" + use('I_yearstep', [E, 'm'])),
        (r'd \+= days_per_year \( ey , m \)', cut("(d == g_dsc + 365 + (LEAPI(%s + %s) ? 1 : 0))" % (E, CYC), "ghost cut: days of the previous year") + "\n" +
            cut(CUT_A, "ghost cut A(iii): previous-year shortcut"), 'after'),
        (r'if \( d > 365 \)', cut(CUT_A, "ghost cut A: state after the 400-year reduction")),
        (r'int yi = year_index \( ey , m \)', SHIFT("ey + %s" % CYC, "%s + %s" % (E, CYC)) + "\n" + LEAPSTEP("%s + %s" % (E, CYC))),
        (r'int yi = year_index \( ey , m \)', cut("(0 <= yi && yi < 400 && yi == FMI(%s + %s))" % (E, CYC), "ghost cut: year index of the small year"), 'after'),
        # loop 1: centuries
        (r'int n = days_per_century \( yi \)', use('I_centstep', [E, 'm']) + "\n" + use('I_fmstep', ["%s + %s" % (E, CYC), '100'])),
        # loop 2: four-year groups
        (r'int n = days_per_4years \( yi \)', use('I_4step', [E, 'm']) + "\n" + use('I_fmstep', ["%s + %s" % (E, CYC), '4'])),
        # loop 3: years
        (r'int n = days_per_year \( ey , m \)', SHIFT("ey + %s" % CYC, "%s + %s" % (E, CYC)) + "\n" +
            LEAPSTEP("%s + %s" % (E, CYC)) + "\n" + use('I_yearstep', [E, 'm'])),
        (r'int n = days_per_year \( ey , m \)', cut("(n == 365 + (LEAPI(%s + %s) ? 1 : 0))" % (E, CYC), "ghost cut: days of this year"), 'after'),
        (r'if \( d > 28 \)', cut(CUT_B, "ghost cut B: state after the year loops")),
        # loop 4: months
        (r'int n = days_per_month \( ey , m \)', SHIFT("ey", E) + "\n" + LEAPSTEP(E) + "\n" + use('I_monthstep', [E, 'm'])),
        (r'int n = days_per_month \( ey , m \)', cut("(n == DIM(LEAPI(%s), m))" % E, "ghost cut: days of this month"), 'after'),
        (r'return fields \(', use('I_day', [E, 'm', '(int)d']) + "\n" +
            cut("(1 <= m && m <= 12 && 1 <= d && d <= 31 && d <= DIM(LEAPI(%s), m) && %s && ORDI(%s, m, (int)(d)) == %s)" % (E, EB(-1300, 2100), E, RHS), "ghost cut C: final state in the small frame") + "\n" +
            "REVEAL_NDAY_PRE(y, g_m0, g_d0, g_cd0);\n" +
            "USE(lemma_nday_lift_REQ(y, g_m0, g_d0, g_cd0, g_qc, g_qd, g_rc, g_rd, ey, oey, m, d, WRAP_RY(y, ey, oey)), lemma_nday_lift_ENS(y, g_m0, g_d0, g_cd0, g_qc, g_qd, g_rc, g_rd, ey, oey, m, d, WRAP_RY(y, ey, oey)), \"nday_lift\");\n" +
            "REVEAL_DAYORD(WRAP_RY(y, ey, oey), m, d);\nREVEAL_DAYORD(y, g_m0, 1);\nREVEAL_VALIDD(WRAP_RY(y, ey, oey), m, d);\n" +
            cut("(VALIDD(WRAP_RY(y, ey, oey), m, d) && DAYORD(WRAP_RY(y, ey, oey), m, d) == DAYORD(y, g_m0, 1) + (Z)g_d0 - 1 + (Z)g_cd0 && y + (ey - oey) == WRAP_RY(y, ey, oey))", "ghost cut D: the postcondition holds for the value about to be returned") + "\n" +
            cut("((g_cd0 == 0 && 1 <= g_d0 && g_d0 <= 28) ? (ey == oey && m == g_m0 && d == g_d0) : 1)", "ghost cut E: already normalised input is returned unchanged")),
    ],
}

# --- get_weekday: reduce the ordinal to the 400-year cycle, then it is a finite table check --------
YO = "(Z)(cs.y % 400)"
GW = """
REVEAL_DAYORD(cs.y, cs.m, cs.d);
REVEAL_WDAY(ODAY(cs));
USE(lemma_ord_reduce_REQ(cs.y, cs.m, cs.d), lemma_ord_reduce_ENS(cs.y, cs.m, cs.d), "ord_reduce(cs)");
USE(lemma_ordbound_REQ(cs.y %% 400, cs.m, cs.d), lemma_ordbound_ENS(cs.y %% 400, cs.m, cs.d), "ordbound");
USE(lemma_wd_period_REQ(ORD(%(YO)s, cs.m, cs.d), (Z)(cs.y / 400)), lemma_wd_period_ENS(ORD(%(YO)s, cs.m, cs.d), (Z)(cs.y / 400)), "wd_period");
USE(lemma_wd_cong_REQ(ORD(cs.y, cs.m, cs.d), ORD(%(YO)s, cs.m, cs.d) + (Z)146097 * (Z)(cs.y / 400)), lemma_wd_cong_ENS(ORD(cs.y, cs.m, cs.d), ORD(%(YO)s, cs.m, cs.d) + (Z)146097 * (Z)(cs.y / 400)), "wd_cong");
USE(lemma_I_anchor_REQ((int)(cs.y %% 400), cs.m, cs.d), lemma_I_anchor_ENS((int)(cs.y %% 400), cs.m, cs.d), "I_anchor");
USE(lemma_cong_REQ(%(YO)s, (Z)((int)(cs.y %% 400)), cs.m, cs.d), lemma_cong_ENS(%(YO)s, (Z)((int)(cs.y %% 400)), cs.m, cs.d), "cong");
USE(lemma_wd_cong_REQ(ORD(%(YO)s, cs.m, cs.d), (Z)ORD_I((int)(cs.y %% 400), cs.m, cs.d)), lemma_wd_cong_ENS(ORD(%(YO)s, cs.m, cs.d), (Z)ORD_I((int)(cs.y %% 400), cs.m, cs.d)), "wd_cong small");
USE(lemma_wd_cong_REQ(ODAY(cs), ORD(cs.y, cs.m, cs.d)), lemma_wd_cong_ENS(ODAY(cs), ORD(cs.y, cs.m, cs.d)), "wd_cong opaque");
STEP(WD((Z)ORD_I((int)(cs.y %% 400), cs.m, cs.d)) == (Z)WD_I(ORD_I((int)(cs.y %% 400), cs.m, cs.d)), "weekday of a small ordinal in 32 bits");
STEP(0 <= wd %% 7 + 6 && wd %% 7 + 6 < 13 && (int)k_weekday_by_mon_off[wd %% 7 + 6] == WD_I(ORD_I((int)(cs.y %% 400), cs.m, cs.d)), "the table formula is the weekday within the cycle");
STEP((Z)(int)k_weekday_by_mon_off[wd %% 7 + 6] == WD(ORD(cs.y, cs.m, cs.d)), "chain: table value is the weekday of the full ordinal");
""" % dict(YO=YO)
HOOKS['get_weekday'] = [(r'return k_weekday_by_mon_off', GW)]
GHOST['get_weekday'] = {0: "REVEAL_VALIDD(cs.y, cs.m, cs.d);"}
GHOST['get_yearday'] = {0: "REVEAL_VALIDD(cs.y, cs.m, cs.d);\nREVEAL_DAYORD(cs.y, cs.m, cs.d);\nREVEAL_DAYORD(cs.y, 1, 1);"}

# --- next_weekday / prev_weekday ---------------------------------------------------------------------
# forw[i] is weekday number i%7, back[i] is weekday number (6 - i%7)
# next_weekday / prev_weekday: the outer loop has a contract; the inner loop (at most 7 iterations: the table holds every weekday in
# any 7 consecutive entries) is unwound with an unwinding assertion - goto-instrument --dfcc rejects contracts on this nest
# ("loop body instruction with incoming edge from outside the loop").  dfcc havocs function-local statics at a loop contract, so the
# (const) table's contents are restated as an invariant.
LOOPS['next_weekday'] = {
    1: """__CPROVER_assigns(i)
__CPROVER_loop_invariant(0 <= i && i <= (int)base && (int)base <= 6)
__CPROVER_loop_invariant((int)k_weekdays_forw[0] == 0 && (int)k_weekdays_forw[1] == 1 && (int)k_weekdays_forw[2] == 2 && (int)k_weekdays_forw[3] == 3 && (int)k_weekdays_forw[4] == 4 && (int)k_weekdays_forw[5] == 5 && (int)k_weekdays_forw[6] == 6 && (int)k_weekdays_forw[7] == 0 && (int)k_weekdays_forw[8] == 1 && (int)k_weekdays_forw[9] == 2 && (int)k_weekdays_forw[10] == 3 && (int)k_weekdays_forw[11] == 4 && (int)k_weekdays_forw[12] == 5 && (int)k_weekdays_forw[13] == 6)
__CPROVER_decreases(7 - i)""",
}
LOOPS['prev_weekday'] = {
    1: """__CPROVER_assigns(i)
__CPROVER_loop_invariant(0 <= i && i <= 6 - (int)base && 0 <= (int)base && (int)base <= 6)
__CPROVER_loop_invariant((int)k_weekdays_back[0] == 6 && (int)k_weekdays_back[1] == 5 && (int)k_weekdays_back[2] == 4 && (int)k_weekdays_back[3] == 3 && (int)k_weekdays_back[4] == 2 && (int)k_weekdays_back[5] == 1 && (int)k_weekdays_back[6] == 0 && (int)k_weekdays_back[7] == 6 && (int)k_weekdays_back[8] == 5 && (int)k_weekdays_back[9] == 4 && (int)k_weekdays_back[10] == 3 && (int)k_weekdays_back[11] == 2 && (int)k_weekdays_back[12] == 1 && (int)k_weekdays_back[13] == 0)
__CPROVER_decreases(7 - i)""",
}
GHOST['next_weekday'] = {0: "BOUND_DAYORD(cd.y, cd.m, cd.d);"}
GHOST['prev_weekday'] = {0: "BOUND_DAYORD(cd.y, cd.m, cd.d);"}
HOOKS['next_weekday'] = [
    (r'return cd \+', 'USE(lemma_validrepr_REQ(cd.y, cd.m, cd.d), lemma_validrepr_ENS(cd.y, cd.m, cd.d), "validrepr(cd)");\nUSE(lemma_wd_add_REQ(ODAY(cd), j - i), lemma_wd_add_ENS(ODAY(cd), j - i), "wd_add(cd, j-i)");'),
]
HOOKS['prev_weekday'] = [
    (r'return cd -', 'USE(lemma_validrepr_REQ(cd.y, cd.m, cd.d), lemma_validrepr_ENS(cd.y, cd.m, cd.d), "validrepr(cd)");\nUSE(lemma_wd_add_REQ(ODAY(cd), j - i), lemma_wd_add_ENS(ODAY(cd), j - i), "wd_add(cd, j-i)");'),
]

HOOKS['is_leap_year'] = [(r'return y % 4 == 0', "REVEAL_IDX400(y);\nREVEAL_LEAPI(IDX400(y));\nUSE(lemma_I_anchor_REQ(IDX400(y), 1, 1), lemma_I_anchor_ENS(IDX400(y), 1, 1), \"I_anchor(idx)\");")]
HOOKS['year_index'] = [(r'return yi < 0', "REVEAL_IDX400(y + (m > 2));")]


# --- the carry chain above n_day ------------------------------------------------------------------------
GHOST['n_mon'] = {0: "const year_t g_y0 = y;\nconst diff_t g_mm0 = m;\nREVEAL_NMON_PRE(g_y0, g_mm0, d, (Z)cd);"}
HOOKS['n_mon'] = [
    (r'return n_day \(',
     cut("((Z)y == NMON_Y1(g_y0, g_mm0) && (int)m == NMON_M1(g_mm0))", "ghost cut: month carried into the year") + "\n" +
     "USE(lemma_cong2_REQ(y, NMON_Y1(g_y0, g_mm0), (int)m, NMON_M1(g_mm0), 1), lemma_cong2_ENS(y, NMON_Y1(g_y0, g_mm0), (int)m, NMON_M1(g_mm0), 1), \"cong2\");\n" +
     "REVEAL_MONBASE(g_y0, g_mm0);\nREVEAL_DAYORD(y, (int)m, 1);\nREVEAL_NDAY_PRE(y, (int)m, d, cd);\n" +
     cut("(NDAY_PRE(y, (int)m, d, cd) && DAYORD(y, (int)m, 1) == MONBASE(g_y0, g_mm0))", "ghost cut: n_day may be called; its base day is the month base")),
]
GHOST['n_hour'] = {0: "const diff_t g_cd0 = cd;\nconst diff_t g_hh0 = hh;\n" + use('carry', ['hh'])}
HOOKS['n_hour'] = [
    (r'return n_mon \(', cut("((Z)cd == (Z)g_cd0 + FD24((Z)g_hh0) && (Z)hh == FM24((Z)g_hh0))", "ghost cut: hours carried into days")),
]
GHOST['n_min'] = {0: "const diff_t g_ch0 = ch;\nconst diff_t g_mm0 = mm;\n" + use('carry', ['mm'])}
HOOKS['n_min'] = [
    (r'return n_hour \(', cut("((Z)ch == (Z)g_ch0 + FD60((Z)g_mm0) && (Z)mm == FM60((Z)g_mm0))", "ghost cut: minutes carried into hours") + "\n" +
     use('split2', ['hh', 'ch'])),
]
GHOST['n_sec'] = {0: "const diff_t g_ss0 = ss;\n" + use('carry', ['ss']) + "\n" +
                   use('dm_small', ['ss']) + "\n" + use('dm_small', ['mm']) + "\n" + use('dm_small', ['hh']) + "\n" + use('split1', ['mm']) + "\n" + use('split1', ['hh'])}
HOOKS['n_sec'] = [
    (r'return fields \( y , nm , nd', use('valid28', ['y', '(int)nm', '(int)nd'])),
    (r'return n_min \( y , m , d , hh , mm / 60 \+ cm / 60', cut("((Z)cm == FD60((Z)g_ss0) && (Z)ss == FM60((Z)g_ss0))", "ghost cut: seconds carried into minutes") + "\n" +
     use('split2', ['mm', 'cm'])),
]
HOOKS['align_month'] = [(r'return fields', "USE(lemma_ordbound_REQ(f.y, f.m, 1), lemma_ordbound_ENS(f.y, f.m, 1), \"ordbound\");\nREVEAL_DAYORD(f.y, f.m, 1);\nREVEAL_DAYORD(f.y, f.m, f.d);\nREVEAL_VALIDD(f.y, f.m, f.d);\nREVEAL_VALIDD(f.y, f.m, 1);")]
HOOKS['align_year'] = [(r'return fields', "USE(lemma_ordbound_REQ(f.y, 1, 1), lemma_ordbound_ENS(f.y, 1, 1), \"ordbound\");\nUSE(lemma_ordbound_REQ(f.y, f.m, f.d), lemma_ordbound_ENS(f.y, f.m, f.d), \"ordbound\");\nREVEAL_DAYORD(f.y, 1, 1);\nREVEAL_DAYORD(f.y, f.m, f.d);\nREVEAL_VALIDD(f.y, f.m, f.d);\nREVEAL_VALIDD(f.y, 1, 1);")]


# --- C05: step -------------------------------------------------------------------------------------------
def rng(x):
    return use('dm_range', [x])


S_SS = "(Z)(f.ss + n % 60)"
S_M = "NSEC_M(f.mm + n / 60, f.ss + n % 60)"
S_H = "NSEC_H(f.hh, f.mm + n / 60, f.ss + n % 60)"
HOOKS['step_second'] = [(r'return impl :: n_sec \(', "BOUND_DAYORD(f.y, f.m, f.d);\n" + use('trunc', ['n']) + "\n" + use('validday', ['f.y', 'f.m', 'f.d']) + "\n" +
    rng(S_SS) + "\n" + rng(S_M) + "\n" + rng(S_H) + "\n" +
    rng("OSEC(f) + n") + "\n" + rng("FD60(OSEC(f) + n)") + "\n" + rng("FD60(FD60(OSEC(f) + n))") + "\n" +
    use('dm_lin', ["OMIN(f) + (Z)(n / 60)", S_SS]) + "\n" + use('dm_lin', ["OHOUR(f)", "(Z)(f.mm + n / 60) + FD60(%s)" % S_SS]) + "\n" +
    use('dm_lin', ["ODAY(f)", S_H]) + "\n" +
    cut("(FD24(FD60(FD60(OSEC(f) + n))) == ODAY(f) + FD24(%s))" % S_H, "ghost cut: day carried out of the new second count") + "\n" +
    use('nmonpre', ['f.y', 'f.m', 'f.d', "FD24(%s)" % S_H]))]
M_M = "(Z)(f.mm + n % 60)"
M_H = "NMIN_H(f.hh + n / 60, 0, f.mm + n % 60)"
HOOKS['step_minute'] = [(r'return impl :: n_min \(', "BOUND_DAYORD(f.y, f.m, f.d);\n" + use('trunc', ['n']) + "\n" + use('validday', ['f.y', 'f.m', 'f.d']) + "\n" +
    rng(M_M) + "\n" + rng(M_H) + "\n" + rng("OMIN(f) + n") + "\n" + rng("FD60(OMIN(f) + n)") + "\n" +
    use('dm_lin', ["OHOUR(f) + (Z)(n / 60)", M_M]) + "\n" + use('dm_lin', ["ODAY(f)", M_H]) + "\n" +
    cut("(FD24(FD60(OMIN(f) + n)) == ODAY(f) + FD24(%s))" % M_H, "ghost cut: day carried out of the new minute count") + "\n" +
    use('nmonpre', ['f.y', 'f.m', 'f.d', "FD24(%s)" % M_H]))]
H_H = "(Z)(f.hh + n % 24)"
HOOKS['step_hour'] = [(r'return impl :: n_hour \(', "BOUND_DAYORD(f.y, f.m, f.d);\n" + use('trunc', ['n']) + "\n" + use('validday', ['f.y', 'f.m', 'f.d']) + "\n" +
    rng(H_H) + "\n" + rng("OHOUR(f) + n") + "\n" + use('dm_lin', ["ODAY(f) + (Z)(n / 24)", H_H]) + "\n" +
    cut("(FD24(OHOUR(f) + n) == ODAY(f) + (Z)(n / 24) + FD24(%s))" % H_H, "ghost cut: day carried out of the new hour count") + "\n" +
    use('nmonpre', ['f.y', 'f.m', 'f.d + n / 24', "(Z)0 + FD24(%s)" % H_H]))]
HOOKS['step_day'] = [(r'return impl :: n_day \(', "BOUND_DAYORD(f.y, f.m, f.d);\n" + use('validday', ['f.y', 'f.m', 'f.d']) + "\n" + use('valid28', ['f.y', 'f.m', '1']) + "\nREVEAL_NDAY_PRE(f.y, f.m, f.d, n);\nREVEAL_DAYORD(f.y, f.m, 1);\nREVEAL_DAYORD(f.y, f.m, f.d);")]


_SMY = "(year_t)NMON_Y1(f.y + n / 12, f.m + n % 12)"
_SMM = "NMON_M1(f.m + n % 12)"
HOOKS['step_month'] = [(r'return impl :: n_mon \(', use('stepmon', ['f.y', 'f.m', 'n']) + "\n" +
    cut("((Z)(diff_t)(f.m + n % 12) == SM_M(f.m, n) && FITS64(SM_Y(f.y, n)))", "ghost cut: the split of n does not overflow") + "\n" +
    use('valid28', [_SMY, _SMM, 'f.d']) + "\n" + use('validrepr', [_SMY, _SMM, 'f.d']) + "\n" +
    use('nmonpre', [_SMY, _SMM, 'f.d', '(Z)0']) + "\n" +
    use('nmonpre_carry', ['f.y + n / 12', 'f.m + n % 12', 'f.d', '(Z)0']))]

# --- C05: difference ------------------------------------------------------------------------------------
_B2 = "BOUND_DAYORD(f1.y, f1.m, f1.d);\nBOUND_DAYORD(f2.y, f2.m, f2.d);"
GHOST['difference_hour'] = {0: _B2 + "\n" + "USE(lemma_fits_REQ(UDIFF_day(f1, f2), f1.hh - f2.hh, 24), lemma_fits_ENS(UDIFF_day(f1, f2), f1.hh - f2.hh, 24), \"fits\");"}
GHOST['difference_minute'] = {0: _B2 + "\nREVEAL_MUL(UDIFF_day(f1, f2));\n" + "USE(lemma_fits_REQ(UDIFF_hour(f1, f2), f1.mm - f2.mm, 60), lemma_fits_ENS(UDIFF_hour(f1, f2), f1.mm - f2.mm, 60), \"fits\");"}
GHOST['difference_second'] = {0: _B2 + "\nREVEAL_MUL(UDIFF_day(f1, f2));\nREVEAL_MUL(UDIFF_hour(f1, f2));\n" + "USE(lemma_fits_REQ(UDIFF_minute(f1, f2), f1.ss - f2.ss, 60), lemma_fits_ENS(UDIFF_minute(f1, f2), f1.ss - f2.ss, 60), \"fits\");"}
for _t in ('second', 'minute', 'hour', 'day'):
    GHOST['ct_%s_diff' % _t] = {0: "BOUND_DAYORD(lhs.y, lhs.m, lhs.d);\nBOUND_DAYORD(rhs.y, rhs.m, rhs.d);\nUSE_UDIFF(lhs, rhs);"}
    GHOST['ct_%s_plus' % _t] = {0: "BOUND_DAYORD(a.y, a.m, a.d);"}

GHOST['scale_add'] = {0: "REVEAL_MUL((Z)v);"}


# --- day_difference: the two dates are reduced to their 400-year cycle; all calendar reasoning is in the code-free lemma_dd ----
OA = "ORDI((int)(y1 % 400), m1, d1)"
OB = "ORDI((int)(y2 % 400), m2, d2)"
DD0 = "const year_t g_qa = y1 / 400;\nconst year_t g_qb = y2 / 400;\n" + use('div400', ['y1']) + "\n" + use('div400', ['y2']) + "\n" + \
      use('dd', ['y1', 'm1', 'd1', 'y2', 'm2', 'd2'])
GHOST['day_difference'] = {0: DD0}
BASE_C4 = "(Z)400 * ((Z)g_qa - (Z)g_qb)"
KADJ = "((Z)g_qa - (Z)g_qb + g_adj)"
HOOKS['day_difference'] = [
    (r'diff_t c4_diff = \( y1 - a_c4_off \)',
     "int g_adj = 0;\n" +
     cut("(Z)y1 - (Z)a_c4_off == (Z)400 * (Z)g_qa && (Z)y2 - (Z)b_c4_off == (Z)400 * (Z)g_qb", "removing the remainder leaves 400 times the quotient") + "\n" +
     use('c4', ['y1', 'a_c4_off', 'y2', 'b_c4_off', 'g_qa', 'g_qb']) + "\n" +
     cut("(Z)c4_diff == " + BASE_C4, "c4_diff is 400 times the cycle distance"), 'after'),
    (r'diff_t delta = ymd_ord \(', cut("(Z)delta == (Z)%s - (Z)%s" % (OA, OB), "delta is the distance inside the cycle window"), 'after'),
    (r'c4_diff -= 2 \* 400 ;', "g_adj = -2;", 'after'),
    (r'c4_diff \+= 2 \* 400 ;', "g_adj = 2;", 'after'),
    (r'return \( c4_diff / 400 \* 146097 \) \+ delta',
     cut("(g_adj == 0 || g_adj == 2 || g_adj == -2) && (Z)c4_diff == (Z)400 * %s && (Z)delta == (Z)%s - (Z)%s - (Z)146097 * g_adj" % (KADJ, OA, OB), "cycle count and window distance after the adjustment") + "\n" +
     cut("!(c4_diff > 400 && delta < 0) && !(c4_diff < -400 && delta > 0)", "a large cycle part and the window part do not pull in opposite directions") + "\n" +
     use('q400', ['c4_diff', KADJ]) + "\n" +
     cut("(Z)(c4_diff / 400) * 146097 + (Z)delta == DAYORD(y1, m1, d1) - DAYORD(y2, m2, d2)", "the returned sum is the ordinal distance")),
]
GHOST['ymd_ord'] = {0: "REVEAL_ORDI((int)y, m, d);"}


# --- operator-(n): for n == INT64_MIN the code steps by INT64_MAX and then by 1; the intermediate ordinal lies between the argument's and the
# (representable) result's, and representability is monotone through the floor divisions (lemma_dm_mono) ------------------------------------
def _minus_ghost(tag):
    unit = {'second': 'OSEC(a)', 'minute': 'OMIN(a)', 'hour': 'OHOUR(a)', 'day': 'ODAY(a)'}[tag]
    chain = {'second': ['FD60', 'FD60', 'FD24'], 'minute': ['FD60', 'FD24'], 'hour': ['FD24'], 'day': []}[tag]
    g = ["if (n == INT_FAST64_MIN) {",
         "REVEAL_OSEC(a);",
         "const Z g_u0 = %s;" % unit, "const Z g_u1 = g_u0 + (Z)INT64_MAX;", "const Z g_u2 = g_u0 + (Z)INT64_MAX + 1;",
         "BOUND_DAYORD(a.y, a.m, a.d);",
         use('validrepr', ['a.y', 'a.m', 'a.d']),
         use('dm_small', ['a.ss']), use('dm_small', ['a.mm']), use('dm_small', ['a.hh']),
         use('dm_lin', ['OMIN(a)', 'a.ss']), use('dm_lin', ['OHOUR(a)', 'a.mm']), use('dm_lin', ['ODAY(a)', 'a.hh'])]
    def nest(x, k):
        for f in chain[:k]:
            x = '%s(%s)' % (f, x)
        return x
    g.append(cut("%s == ODAY(a)" % nest('g_u0', len(chain)), "the day of the argument's unit ordinal is its day ordinal"))
    for k in range(len(chain)):
        g.append(use('dm_mono', [nest('g_u0', k), nest('g_u1', k)]))
        g.append(use('dm_mono', [nest('g_u1', k), nest('g_u2', k)]))
    g.append(cut("REPR_%s(g_u1)" % tag, "the intermediate ordinal is representable"))
    g.append("}")
    return "\n".join(g)


for _t in ('second', 'minute', 'hour', 'day'):
    HOOKS['ct_%s_minus' % _t] = [(r'return n != \( std :: numeric_limits < diff_t > :: min \) \( \)', _minus_ghost(_t))]


HOOKS['ct_month_minus'] = [(r'return n != \( std :: numeric_limits < diff_t > :: min \) \( \)', "\n".join([
    "if (n == INT_FAST64_MIN) {",
    "const Z g_u0 = MONORD_F(a);", "const Z g_u1 = g_u0 + (Z)INT64_MAX;", "const Z g_u2 = g_u0 + (Z)INT64_MAX + 1;",
    cut("FD(g_u0, 12) == (Z)a.y", "the year of the argument's month ordinal is its year"),
    use('fd12_mono', ['g_u0', 'g_u1']), use('fd12_mono', ['g_u1', 'g_u2']),
    cut("REPR_month(g_u1)", "the intermediate ordinal is representable"),
    "}"]))]

# --- year alignment: a day number <= 28 exists in every month of every year ------------------------------------------------------------
GHOST['step_year'] = {0: "REVEAL_VALIDD(f.y, f.m, f.d);\nREVEAL_VALIDD(f.y + n, f.m, f.d);"}
HOOKS['ct_year_minus'] = [(r'return n != \( std :: numeric_limits < diff_t > :: min \) \( \)', "/* REPR_year is plain int64 range: nothing to show for the intermediate step */")]
