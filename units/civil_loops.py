"""Loop contracts and ghost code spliced into the extracted functions of unit civil.

LOOPS[f][n]  : contract clauses of the n-th loop of f (1-based, source order)
GHOST[f][0]  : ghost declarations at function entry;  GHOST[f][n]: immediately before loop n
HOOKS[f]     : (regex on the first tokens of a statement, ghost text) - ghost text is inserted
               immediately before the one statement the regex matches (must match exactly once)

Ghost code only declares const ghost values, calls lemma functions whose contracts are proved
separately (harness/civil.c) and have `assigns()`, or states a cut (assert P; assume P).  It is
compiled only under VERIF_CBMC; the native differential build of the extracted C omits it.

n_day proof idea.  With qc=cd/146097, qd=d/146097 (truncating, as the code computes them) the
code first moves K = 400*(qc+qd) years in bulk; everything after that happens within a few
hundred years of y%400.  So all in-function facts are stated on the *small* year E = ey - K and
on 32-bit ordinals ORD_I; the passage to the real 64-bit year / 128-bit ordinal is the job of
the code-free lemmas lemma_shift400 and lemma_nday_lift.
"""

NDAY_GHOST0 = """
const year_t g_qc = cd / 146097;
const year_t g_qd = d / 146097;
const year_t g_K = g_qc * 400 + g_qd * 400;
const int g_R = (int)(cd % 146097) + (int)(d % 146097);
const int g_O = (int)(y % 400);
const int g_m0 = m;
const diff_t g_d0 = d;
const diff_t g_cd0 = cd;
lemma_quot_bounds(cd, d);
"""
# E: the small year; the day/month-relative conservation law
E = "((int)((Z)ey - (Z)g_K))"
E_RANGE = "(-1300 <= (Z)ey - (Z)g_K && (Z)ey - (Z)g_K <= 2100)"
CONS_Y = "(ORD_I(%s, m, 1) + (int)d - 1 == ORD_I(g_O, g_m0, 1) + g_R - 1)" % E
CONS_M = "(ORD_I(%s, m, (int)d) == ORD_I(g_O, g_m0, 1) + g_R - 1)" % E
CYC = "(m > 2 ? 1 : 0)"

CUT_A = "(1 <= d && d <= 146097 && m == g_m0 && -1300 <= (Z)ey - (Z)g_K && (Z)ey - (Z)g_K <= 800 && %s)" % CONS_Y
CUT_B = "(1 <= d && d <= 366 && m == g_m0 && %s && %s)" % (E_RANGE, CONS_Y)

YEAR_COMMON = """
__CPROVER_loop_invariant(1 <= d && d <= g_DA && g_DA <= 146097 && m == g_m0)
__CPROVER_loop_invariant(-1300 <= (Z)g_EA - (Z)g_K && (Z)g_EA - (Z)g_K <= 800)
__CPROVER_loop_invariant(g_EA <= ey && (Z)365 * ((Z)ey - (Z)g_EA) <= (Z)g_DA - (Z)d)
__CPROVER_loop_invariant(%s)
""" % CONS_Y
YI_INV = "__CPROVER_loop_invariant(0 <= yi && yi < 400 && yi == FM(%s + %s, 400))\n" % (E, CYC)

LOOPS = {
    'n_day': {
        1: "__CPROVER_assigns(d, ey, yi)" + YEAR_COMMON + YI_INV + "__CPROVER_decreases(d)",
        2: "__CPROVER_assigns(d, ey, yi)" + YEAR_COMMON + YI_INV + "__CPROVER_decreases(d)",
        3: "__CPROVER_assigns(d, ey)" + YEAR_COMMON + "__CPROVER_decreases(d)",
        4: """__CPROVER_assigns(d, ey, m)
__CPROVER_loop_invariant(1 <= m && m <= 12 && 1 <= d && d <= g_DB && g_DB <= 366)
__CPROVER_loop_invariant(-1300 <= (Z)g_EB - (Z)g_K && (Z)g_EB - (Z)g_K <= 2000)
__CPROVER_loop_invariant(g_EB <= ey && (Z)28 * ((Z)12 * ((Z)ey - (Z)g_EB) + ((Z)m - (Z)g_m0)) <= (Z)g_DB - (Z)d)
__CPROVER_loop_invariant(%s)
__CPROVER_decreases(d)""" % CONS_M,
    },
}
GHOST = {
    'n_day': {
        0: NDAY_GHOST0,
        1: "const year_t g_EA = ey;\nconst diff_t g_DA = d;",
        4: "const year_t g_EB = ey;\nconst diff_t g_DB = d;",
    },
}
HOOKS = {
    'n_day': [
        # the previous-year shortcut: days_per_year(ey, m) is about the 64-bit year ey; relate it to E
        (r'd \+= days_per_year \( ey , m \)', "lemma_shift400(ey + %s, g_qc, g_qd);" % CYC),
        (r'if \( d > 365 \)', '__CPROVER_assert(%s, "ghost cut A: state after the 400-year reduction");\n__CPROVER_assume(%s);' % (CUT_A, CUT_A)),
        (r'int yi = year_index \( ey , m \)', "lemma_shift400(ey + %s, g_qc, g_qd);" % CYC),
        (r'int n = days_per_year \( ey , m \)', "lemma_shift400(ey + %s, g_qc, g_qd);" % CYC),
        (r'if \( d > 28 \)', '__CPROVER_assert(%s, "ghost cut B: state after the year loops");\n__CPROVER_assume(%s);' % (CUT_B, CUT_B)),
        (r'int n = days_per_month \( ey , m \)', "lemma_shift400(ey, g_qc, g_qd);"),
        (r'return fields \(', "lemma_shift400(ey, g_qc, g_qd);\nlemma_nday_lift(y, g_m0, g_d0, g_cd0, ey, oey, m, d, WRAP_RY(y, ey, oey));"),
    ],
}
