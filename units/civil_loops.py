LOOPS = {}
