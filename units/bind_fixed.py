"""Native bindings of unit fixed to the REAL cctz code (replay): the anonymous-namespace functions are reached by
#including the real .cc file."""
PRELUDE = r'''
#include <cstdint>
#include <cstdio>
#include <cstring>
#include <string>
#include "time_zone_fixed.cc"
typedef __int128 Z;
using namespace cctz;
typedef std::int64_t seconds_t;
struct vstr { char data[32]; size_t size; };
static vstr V(const std::string& s) { vstr r; std::memset(r.data, 0, sizeof r.data); r.size = s.size(); std::memcpy(r.data, s.data(), s.size() < 31 ? s.size() : 31); return r; }
#define VSTR_WF(s) ((s).size < 32 && (s).data[(s).size] == 0)
#define VSTR_CAP 32
#define __CPROVER_is_fresh(p, n) 1
#define __CPROVER_old(x) old_offset_
'''
NATIVE_OPAQUE = ''


def EXTRA_SOURCES(repo):
    return []


BIND = {
    'Parse02d': dict(call='Parse02d(p)', show='std::printf("result %d for bytes %d %d\\n", rv_, p[0], p[1]);'),
    'Format02d': dict(call='Format02d(p, v)', show=''),
    'FixedOffsetFromName': dict(pre='seconds_t old_offset_ = *offset; seconds off_(old_offset_);',
                                call='FixedOffsetFromName(std::string(name->data, name->size), &off_); *offset = off_.count()',
                                show='std::printf("result %d offset %lld for \\"%s\\"\\n", (int)rv_, (long long)*offset, name->data);'),
    'FixedOffsetToName': dict(call='V(FixedOffsetToName(seconds(offset)))', show='std::printf("result \\"%s\\"\\n", rv_.data);'),
    'FixedOffsetToAbbr': dict(call='V(FixedOffsetToAbbr(seconds(offset)))', show='std::printf("result \\"%s\\"\\n", rv_.data);'),
}
