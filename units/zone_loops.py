LOOPS = {}
GHOST = {}
HOOKS = {}
