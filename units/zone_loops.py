"""Ghost code for the zone kernel (unit zone)."""
from civil_loops import use, cut

LOOPS = {}
GHOST = {}
HOOKS = {}

EP = 'USE(lemma_epoch_REQ(), lemma_epoch_ENS(), "epoch");'
HOOKS['LocalTime_TransitionType'] = [(r'return \{', EP + "\n" +
    use('secrepr', ['EPOCHSEC + (Z)unix_time']) + "\n" + use('secrepr', ['EPOCHSEC + (Z)unix_time + (Z)(*tt).utc_offset']))]
HOOKS['LocalTime_Transition'] = [(r'const TransitionType & tt', use('secrepr', ['OSEC((*tr).civil_sec) + ((Z)unix_time - (Z)(*tr).unix_time)']))]
