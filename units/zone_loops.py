"""Ghost code for the zone kernel (unit zone)."""
from civil_loops import use, cut

LOOPS = {}
GHOST = {}
HOOKS = {}

EP = 'USE(lemma_epoch_REQ(), lemma_epoch_ENS(), "epoch");'
HOOKS['LocalTime_TransitionType'] = [(r'return \{', EP + "\n" +
    use('secrepr', ['EPOCHSEC + (Z)unix_time']) + "\n" + use('secrepr', ['EPOCHSEC + (Z)unix_time + (Z)tt.utc_offset']))]
HOOKS['LocalTime_Transition'] = [(r'const TransitionType & tt', use('secrepr', ['OSEC(tr.civil_sec) + ((Z)unix_time - (Z)tr.unix_time)']))]


def lex(a, b):
    return use('osec_lex', [a, b]) + "\n" + use('osec_lex', [b, a])


Z = "self"
N1 = "NTR(self) - 1"
_entries = ["TR(self, 0)", "TR(self, %s)" % N1]
MT0 = "\n".join([lex("cs", e + ".civil_sec") + "\n" + lex("cs", e + ".prev_civil_sec") for e in _entries]) + "\n" + \
      lex("cs", "TY(self, DEFTY(self)).civil_min") + "\n" + lex("cs", "TY(self, TR(self, %s).type_index).civil_max" % N1) + "\n" + \
      "if (gz_j >= 1 && gz_j < NTR(self)) {\n" + \
      "\n".join([lex("cs", "TR(self, %s).civil_sec" % j) + "\n" + lex("cs", "TR(self, %s).prev_civil_sec" % j) for j in ("gz_j", "gz_j - 1")]) + "\n}\n" + \
      'USE(lemma_epoch_REQ(), lemma_epoch_ENS(), "epoch");'
GHOST['MakeTime'] = {0: MT0}

for _f in ('MakeSkipped', 'MakeRepeated'):
    GHOST[_f] = {0: lex("cs", "tr.civil_sec") + "\n" + lex("cs", "tr.prev_civil_sec")}
