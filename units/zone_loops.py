"""Ghost code for the zone kernel (unit zone)."""
from civil_loops import use, cut

LOOPS = {}
GHOST = {}
HOOKS = {}

EP = 'USE(lemma_epoch_REQ(), lemma_epoch_ENS(), "epoch");'
HOOKS['LocalTime_TransitionType'] = [(r'return \{', EP + "\n" +
    use('secrepr', ['EPOCHSEC + (Z)unix_time']) + "\n" + use('secrepr', ['EPOCHSEC + (Z)unix_time + (Z)tt.utc_offset']))]
HOOKS['LocalTime_Transition'] = [(r'const TransitionType & tt', use('secrepr', ['OSEC(tr.civil_sec) + ((Z)unix_time - (Z)tr.unix_time)']))]


def lex(a, b):
    return use('osec_lex', [a, b]) + "\n" + use('osec_lex', [b, a])


N1 = "NTR(self) - 1"


def pairs(e):
    return lex("cs", e + ".civil_sec") + "\n" + lex("cs", e + ".prev_civil_sec")


# the order facts each case of the proof needs (contracts/zone.h: MT_CASE); without -DMT_CASE all of them
MT0 = 'USE(lemma_epoch_REQ(), lemma_epoch_ENS(), "epoch");\n' + \
      "#if !defined(MT_CASE) || MT_CASE == 1\n" + pairs("TR(self, 0)") + "\n" + lex("cs", "TY(self, DEFTY(self)).civil_min") + "\n" + use('secrepr', ['EPOCHSEC + (Z)TY(self, DEFTY(self)).utc_offset']) + "\n#endif\n" + \
      "#if !defined(MT_CASE) || MT_CASE == 2\n" + pairs("TR(self, %s)" % N1) + "\n" + lex("cs", "TY(self, TR(self, %s).type_index).civil_max" % N1) + "\n#endif\n" + \
      "#if !defined(MT_CASE) || MT_CASE == 3\nif (MT_MIDDLE(self, cs)) {\n" + pairs("TR(self, gz_j)") + "\n" + pairs("TR(self, gz_j - 1)") + "\n}\n#endif\n"
GHOST['MakeTime'] = {0: MT0}

for _f in ('MakeSkipped', 'MakeRepeated'):
    GHOST[_f] = {0: lex("cs", "tr.civil_sec") + "\n" + lex("cs", "tr.prev_civil_sec")}

# TimeLocal: remember what the inner MakeTime returned (ghost), so that the postcondition can relate the result to it
HOOKS['TimeLocal'] = [(r'time_zone :: civil_lookup cl = MakeTime', 'gz_mt = cl;', 'after')]

# ---- NextTransition -------------------------------------------------------------------------------------------------------------------
IDX = "((size_t)__CPROVER_POINTER_OFFSET(tr) / sizeof(Transition))"
GHOST['NextTransition'] = {1: "const size_t g_k0 = (size_t)(tr - &self->transitions_.data[0]);\nconst size_t g_s = (size_t)(begin - &self->transitions_.data[0]);"}
LOOPS['NextTransition'] = {
    1: """__CPROVER_assigns(tr)
__CPROVER_loop_invariant(__CPROVER_same_object(tr, end) && __CPROVER_POINTER_OFFSET(begin) <= __CPROVER_POINTER_OFFSET(tr) && __CPROVER_POINTER_OFFSET(tr) <= __CPROVER_POINTER_OFFSET(end))
__CPROVER_loop_invariant((size_t)__CPROVER_POINTER_OFFSET(tr) %% sizeof(Transition) == 0 && g_k0 <= %(IDX)s && g_s == NS(self))
__CPROVER_loop_invariant((g_k0 <= gz_k && gz_k < %(IDX)s) ==> EQ_AT(self, gz_k))
__CPROVER_decreases(__CPROVER_POINTER_OFFSET(end) - __CPROVER_POINTER_OFFSET(tr))""" % dict(IDX=IDX),
}
HOOKS['NextTransition'] = [
    (r'trans -> from = tr -> prev_civil_sec \+ 1', '__CPROVER_assume((size_t)(tr - &self->transitions_.data[0]) == gz_r);   /* prophecy: gz_r is the reported row */\n' +
     'USE(lemma_epoch_REQ(), lemma_epoch_ENS(), "epoch");\n' + use('secrepr', ['OSEC(TR(self, gz_r).prev_civil_sec) + 1'])),
]

# ---- PrevTransition -------------------------------------------------------------------------------------------------------------------
GHOST['PrevTransition'] = {1: "const size_t g_l0 = (size_t)(tr - &self->transitions_.data[0]);"}
LOOPS['PrevTransition'] = {
    1: """__CPROVER_assigns(tr)
__CPROVER_loop_invariant(__CPROVER_same_object(tr, end) && __CPROVER_POINTER_OFFSET(begin) <= __CPROVER_POINTER_OFFSET(tr) && __CPROVER_POINTER_OFFSET(tr) <= __CPROVER_POINTER_OFFSET(end))
__CPROVER_loop_invariant((size_t)__CPROVER_POINTER_OFFSET(tr) %% sizeof(Transition) == 0 && %(IDX)s <= g_l0)
__CPROVER_loop_invariant((%(IDX)s <= gz_k && gz_k < g_l0) ==> EQ_AT(self, gz_k))
__CPROVER_decreases(__CPROVER_POINTER_OFFSET(tr) - __CPROVER_POINTER_OFFSET(begin))""" % dict(IDX=IDX),
}
HOOKS['PrevTransition'] = [
    (r'trans -> from = \( -- tr \) -> prev_civil_sec \+ 1', '__CPROVER_assume((size_t)(tr - &self->transitions_.data[0]) - 1 == gz_r);   /* prophecy: gz_r is the reported row */\n' +
     'USE(lemma_epoch_REQ(), lemma_epoch_ENS(), "epoch");\n' + use('secrepr', ['OSEC(TR(self, gz_r).prev_civil_sec) + 1'])),
]
