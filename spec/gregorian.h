/* /verif/spec/gregorian.h - the proleptic Gregorian calendar as specification arithmetic.
 *
 * Written from the property statements (C04, C05, C17), not from the cctz code.
 * All macros are call-free so they may be used in loop invariants.  Z is __int128, wide
 * enough that no formula below overflows for int64 arguments.
 *
 * That ORD really is "days since 0000-01-01 on the proleptic Gregorian calendar" is itself
 * proved, as code-free lemmas (harness/spec_lemmas.c, L1..L5): ORD(1970,1,1)-ORD(0,1,1)
 * is 719528, and the calendar successor of every valid date has ORD+1.  Those two facts pin
 * ORD uniquely, so a slip in this file fails a lemma instead of silently agreeing with
 * wrong code.
 */
#ifndef VERIF_SPEC_GREGORIAN_H
#define VERIF_SPEC_GREGORIAN_H

/* floor division / modulus by a positive constant n (C's / and % truncate) */
#define FD(x, n) ((x) / (n) - ((((x) % (n)) < 0) ? 1 : 0))
#define FM(x, n) ((x) % (n) + ((((x) % (n)) < 0) ? (n) : 0))

#define LEAP(y) ((y) % 4 == 0 && ((y) % 100 != 0 || (y) % 400 == 0))
/* days in month m of a year with leap flag lp */
#define DIM(lp, m) ((m) == 2 ? 28 + ((lp) ? 1 : 0) : (((m) == 4 || (m) == 6 || (m) == 9 || (m) == 11) ? 30 : 31))
/* days before month m (1..12) in a year with leap flag lp */
#define CUM0(m) ((m) == 1 ? 0 : (m) == 2 ? 31 : (m) == 3 ? 59 : (m) == 4 ? 90 : (m) == 5 ? 120 : (m) == 6 ? 151 : \
                 (m) == 7 ? 181 : (m) == 8 ? 212 : (m) == 9 ? 243 : (m) == 10 ? 273 : (m) == 11 ? 304 : 334)
#define CUM(lp, m) (CUM0(m) + (((lp) && (m) > 2) ? 1 : 0))

/* day number of Y-01-01, counting 0000-01-01 as day 0: 365 per year plus one per leap year
 * in [0,Y) (floor divisions make it valid for negative Y too) */
#define ORDY(Y) ((Z)365 * (Z)(Y) + FD((Z)(Y) + 3, 4) - FD((Z)(Y) + 99, 100) + FD((Z)(Y) + 399, 400))
#define ORD(Y, M, D) (ORDY(Y) + CUM(LEAP((Z)(Y)), M) + (Z)(D) - 1)
#define EPOCH_ORD ((Z)719528) /* ORD(1970,1,1): lemma L3 */

/* ---- the same on SMALL years, in arithmetic that is cheap for a SAT solver ----------------------
 * Valid for -7900 <= e <= 12000.  Years are shifted by +8000 (twenty 400-year cycles) to make them
 * non-negative; x/100 is computed as (x*5243)>>19, exact for 0 <= x < 43699; x/4 as x>>2.  No
 * division circuit is generated for these.  That they agree with ORD / LEAP / FM(.,400) above is
 * lemma_I_anchor (harness/civil.c), proved over the whole domain - so the magic numbers are not
 * trusted. */
#define U_(e) ((e) + 8000)
#define DIV100_(x) (((x) * 5243) >> 19)
#define ORDY_I(e) (365 * U_(e) + ((U_(e) + 3) >> 2) - DIV100_(U_(e) + 99) + DIV100_((U_(e) + 399) >> 2) - 2921940)
#define LEAP_I(e) ((U_(e) & 3) == 0 && (U_(e) != 100 * DIV100_(U_(e)) || (U_(e) >> 2) == 100 * DIV100_(U_(e) >> 2)))
#define FM400_I(e) (U_(e) - 400 * DIV100_(U_(e) >> 2))
#define ORD_I(e, M, D) (ORDY_I(e) + CUM(LEAP_I(e), M) + (D) - 1)
/* days in years [0,k) of the 400-year cycle whose year 0 is a leap year; 0 <= k <= 1000 */
#define SK(k) (365 * (k) + (((k) + 3) >> 2) - DIV100_((k) + 99) + DIV100_(((k) + 399) >> 2))
/* division-based reference forms (used only by the anchoring lemma) */
#define ORDY_ID(Y) (365 * (Y) + FD((Y) + 3, 4) - FD((Y) + 99, 100) + FD((Y) + 399, 400))
#define SK_D(k) (365 * (k) + ((k) + 3) / 4 - ((k) + 99) / 100 + ((k) + 399) / 400)
#define I_DOMAIN(e) (-7900 <= (e) && (e) <= 12000)

#define VALID_YMD(y, m, d) (1 <= (m) && (m) <= 12 && 1 <= (d) && (d) <= DIM(LEAP((Z)(y)), m))
#define VALID_HMS(hh, mm, ss) (0 <= (hh) && (hh) < 24 && 0 <= (mm) && (mm) < 60 && 0 <= (ss) && (ss) < 60)
#define VALID_F(f) (VALID_YMD((f).y, (f).m, (f).d) && VALID_HMS((f).hh, (f).mm, (f).ss))

/* ordinal of a civil time in each unit */
#define DAYORD_F(f) ORD((f).y, (f).m, (f).d)
#define HOURORD_F(f) (DAYORD_F(f) * 24 + (f).hh)
#define MINORD_F(f) (HOURORD_F(f) * 60 + (f).mm)
#define SECORD_F(f) (MINORD_F(f) * 60 + (f).ss)
#define MONORD_F(f) ((Z)12 * (f).y + (f).m - 1)

#define ORD_MIN ORD(INT64_MIN, 1, 1)
#define ORD_MAX ORD(INT64_MAX, 12, 31)

/* weekday number 0=Monday..6=Sunday of a day ordinal: 1970-01-01 (EPOCH_ORD) is a Thursday (3) */
#define WD_C ((Z)3 - EPOCH_ORD)
#define WD(ord) FM((Z)(ord) + WD_C, 7)
/* the same on small (int) ordinals */
#define WD_I(o) FM((o) + (3 - 719528), 7)

#define FIELDS_EQ(a, b) ((a).y == (b).y && (a).m == (b).m && (a).d == (b).d && (a).hh == (b).hh && (a).mm == (b).mm && (a).ss == (b).ss)
#endif
