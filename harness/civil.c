/* /verif/harness/civil.c - lemma bodies, lemma proofs and property lemmas for unit civil. */

/* bodies of the ghost lemma functions (never executed: every call is replaced by the contract) */

#pragma CPROVER check push
#pragma CPROVER check disable "signed-overflow"
#pragma CPROVER check disable "conversion"

void pl_lemma_quot_bounds(void)
{
  diff_t cd, d, qc, qd, rc, rd;
  __CPROVER_assume(lemma_quot_bounds_REQ(cd, d, qc, qd, rc, rd));
  __CPROVER_assert(lemma_quot_bounds_ENS(cd, d, qc, qd, rc, rd), "lemma_quot_bounds.ENS");
}

void pl_lemma_shift400(void)
{
  year_t x, qc, qd; int e;
  __CPROVER_assume(lemma_shift400_REQ(x, qc, qd, e));
  REVEAL_IDX400(x);
  STEP(-((year_t)1 << 58) < x && x < ((year_t)1 << 58), "x is bounded");
  STEP(FD(x - K400(qc, qd), 400) == FD(x, 400) - (qc + qd), "quotient shift by 400");
  STEP(FM(x - K400(qc, qd), 400) == FM(x, 400), "remainder unchanged");
  STEP((Z)e == (Z)(x - K400(qc, qd)), "e is x - K");
  REVEAL_FMI(e);
  USE(lemma_I_anchor_REQ(e, 1, 1), lemma_I_anchor_ENS(e, 1, 1), "I_anchor(e)");
  __CPROVER_assert(lemma_shift400_ENS(x, qc, qd, e), "lemma_shift400.ENS");
}
/* lemmas about the opaque small-year symbols: each proof reveals the definitions at the terms it mentions */
void pl_lemma_I_anchor(void) { int e, m, d; __CPROVER_assume(lemma_I_anchor_REQ(e, m, d)); __CPROVER_assert(lemma_I_anchor_ENS(e, m, d), "lemma_I_anchor.ENS"); }
void pl_lemma_I_sk(void) { int k; __CPROVER_assume(lemma_I_sk_REQ(k)); __CPROVER_assert(lemma_I_sk_ENS(k), "lemma_I_sk.ENS"); }
void pl_lemma_I_period(void)
{
  int e, j, m, d; __CPROVER_assume(lemma_I_period_REQ(e, j, m, d));
  REVEAL_ORDI(e, m, d);
  /* one case per number of cycles: with j a constant the shift is a constant; the opaque symbol is
     revealed at each constant shift, and congruence identifies ORDI(e + 400*j) with the matching case */
  REVEAL_ORDI(e - 1200, m, d); REVEAL_ORDI(e - 800, m, d); REVEAL_ORDI(e - 400, m, d);
  REVEAL_ORDI(e + 400, m, d); REVEAL_ORDI(e + 800, m, d); REVEAL_ORDI(e + 1200, m, d);
  STEP(ORD_I(e - 1200, m, d) == ORD_I(e, m, d) - 3 * 146097, "period: j = -3");
  STEP(ORD_I(e - 800, m, d) == ORD_I(e, m, d) - 2 * 146097, "period: j = -2");
  STEP(ORD_I(e - 400, m, d) == ORD_I(e, m, d) - 146097, "period: j = -1");
  STEP(ORD_I(e + 400, m, d) == ORD_I(e, m, d) + 146097, "period: j = 1");
  STEP(ORD_I(e + 800, m, d) == ORD_I(e, m, d) + 2 * 146097, "period: j = 2");
  STEP(ORD_I(e + 1200, m, d) == ORD_I(e, m, d) + 3 * 146097, "period: j = 3");
  __CPROVER_assert(lemma_I_period_ENS(e, j, m, d), "lemma_I_period.ENS");
}
void pl_lemma_I_leapidx(void)
{
  int e; __CPROVER_assume(lemma_I_leapidx_REQ(e));
  REVEAL_FMI(e); REVEAL_LEAPI(FMI(e)); REVEAL_LEAPI(e);
  __CPROVER_assert(lemma_I_leapidx_ENS(e), "lemma_I_leapidx.ENS");
}
void pl_lemma_I_fmstep(void)
{
  int e, c; __CPROVER_assume(lemma_I_fmstep_REQ(e, c));
  REVEAL_FMI(e + c); REVEAL_FMI(e);
  __CPROVER_assert(lemma_I_fmstep_ENS(e, c), "lemma_I_fmstep.ENS");
}
void pl_lemma_I_yearstep(void)
{
  int e, m; __CPROVER_assume(lemma_I_yearstep_REQ(e, m));
  REVEAL_ORDI(e + 1, m, 1); REVEAL_ORDI(e, m, 1); REVEAL_LEAPI(e + CYCM(m));
  __CPROVER_assert(lemma_I_yearstep_ENS(e, m), "lemma_I_yearstep.ENS");
}
void pl_lemma_I_centstep(void)
{
  int e, m; __CPROVER_assume(lemma_I_centstep_REQ(e, m));
  REVEAL_ORDI(e + 100, m, 1); REVEAL_ORDI(e, m, 1); REVEAL_FMI(e + CYCM(m));
  __CPROVER_assert(lemma_I_centstep_ENS(e, m), "lemma_I_centstep.ENS");
}
void pl_lemma_I_4step(void)
{
  int e, m; __CPROVER_assume(lemma_I_4step_REQ(e, m));
  REVEAL_ORDI(e + 4, m, 1); REVEAL_ORDI(e, m, 1); REVEAL_FMI(e + CYCM(m));
  __CPROVER_assert(lemma_I_4step_ENS(e, m), "lemma_I_4step.ENS");
}
void pl_lemma_I_monthstep(void)
{
  int e, m; __CPROVER_assume(lemma_I_monthstep_REQ(e, m));
  REVEAL_ORDI(e, m + 1, 1); REVEAL_ORDI(e, m, 1); REVEAL_ORDI(e + 1, 1, 1); REVEAL_ORDI(e, 12, 1); REVEAL_LEAPI(e);
  __CPROVER_assert(lemma_I_monthstep_ENS(e, m), "lemma_I_monthstep.ENS");
}
void pl_lemma_I_day(void)
{
  int e, m, d; __CPROVER_assume(lemma_I_day_REQ(e, m, d));
  REVEAL_ORDI(e, m, d); REVEAL_ORDI(e, m, 1);
  __CPROVER_assert(lemma_I_day_ENS(e, m, d), "lemma_I_day.ENS");
}

void pl_lemma_div146097(void) { diff_t x; __CPROVER_assert(lemma_div146097_ENS(x), "lemma_div146097.ENS"); }
void pl_lemma_div400(void) { year_t y; __CPROVER_assert(lemma_div400_ENS(y), "lemma_div400.ENS"); }
void pl_lemma_fdshift4(void) { Z e, k; int c; __CPROVER_assume(lemma_fdshift_REQ(e, k, c)); __CPROVER_assert(lemma_fdshift4_ENS(e, k, c), "lemma_fdshift4.ENS"); }
void pl_lemma_fdshift100(void) { Z e, k; int c; __CPROVER_assume(lemma_fdshift_REQ(e, k, c)); __CPROVER_assert(lemma_fdshift100_ENS(e, k, c), "lemma_fdshift100.ENS"); }
void pl_lemma_fdshift400(void) { Z e, k; int c; __CPROVER_assume(lemma_fdshift_REQ(e, k, c)); __CPROVER_assert(lemma_fdshift400_ENS(e, k, c), "lemma_fdshift400.ENS"); }
void pl_lemma_fmshift(void)
{
  Z e, k;
  __CPROVER_assume(lemma_fmshift_REQ(e, k));
  USE(lemma_fdshift_REQ(e, k, 0), lemma_fdshift400_ENS(e, k, 0), "fdshift400(e,k,0)");
  __CPROVER_assert(lemma_fmshift_ENS(e, k), "lemma_fmshift.ENS");
}
void pl_lemma_leapidx(void) { Z Y; __CPROVER_assume(lemma_leapidx_REQ(Y)); __CPROVER_assert(lemma_leapidx_ENS(Y), "lemma_leapidx.ENS"); }
void pl_lemma_cong(void) { Z A, B; int m, d; __CPROVER_assume(lemma_cong_REQ(A, B, m, d)); __CPROVER_assert(lemma_cong_ENS(A, B, m, d), "lemma_cong.ENS"); }

void pl_lemma_cong2(void) { Z A, B; int ma, mb, d; __CPROVER_assume(lemma_cong2_REQ(A, B, ma, mb, d)); __CPROVER_assert(lemma_cong2_ENS(A, B, ma, mb, d), "lemma_cong2.ENS"); }

void pl_lemma_dm_range(void)
{
  Z x; __CPROVER_assume(lemma_dm_range_REQ(x));
  REVEAL_DM24(x); REVEAL_DM60(x);
  __CPROVER_assert(lemma_dm_range_ENS(x), "lemma_dm_range.ENS");
}
void pl_lemma_split1(void)
{
  diff_t x;
  REVEAL_DM24((Z)(x % 24)); REVEAL_DM24((Z)(x)); REVEAL_DM60((Z)(x % 60)); REVEAL_DM60((Z)(x));
  STEP((Z)(x / 24) + FD((Z)(x % 24), 24) == FD((Z)x, 24), "quotient split by 24");
  STEP((Z)(x / 60) + FD((Z)(x % 60), 60) == FD((Z)x, 60), "quotient split by 60");
  STEP(FM((Z)(x % 24), 24) == FM((Z)x, 24), "remainder split by 24");
  STEP(FM((Z)(x % 60), 60) == FM((Z)x, 60), "remainder split by 60");
  __CPROVER_assert(lemma_split1_ENS(x), "lemma_split1.ENS");
}
void pl_lemma_split2(void)
{
  diff_t a, b;
  REVEAL_DM24((Z)(a % 24 + b % 24)); REVEAL_DM24((Z)(a) + (Z)(b)); REVEAL_DM60((Z)(a % 60 + b % 60)); REVEAL_DM60((Z)(a) + (Z)(b));
  STEP((Z)(a / 24 + b / 24) + FD((Z)(a % 24 + b % 24), 24) == FD((Z)a + (Z)b, 24), "quotient of a sum split by 24");
  STEP((Z)(a / 60 + b / 60) + FD((Z)(a % 60 + b % 60), 60) == FD((Z)a + (Z)b, 60), "quotient of a sum split by 60");
  STEP(FM((Z)(a % 24 + b % 24), 24) == FM((Z)a + (Z)b, 24), "remainder of a sum split by 24");
  STEP(FM((Z)(a % 60 + b % 60), 60) == FM((Z)a + (Z)b, 60), "remainder of a sum split by 60");
  __CPROVER_assert(lemma_split2_ENS(a, b), "lemma_split2.ENS");
}
void pl_lemma_carry(void)
{
  diff_t x;
  REVEAL_DM24((Z)(x)); REVEAL_DM60((Z)(x));
  STEP((Z)x / 24 == (Z)(x / 24) && (Z)x / 60 == (Z)(x / 60), "64-bit and 128-bit truncating quotients agree");
  STEP((Z)x % 24 == (Z)(x % 24) && (Z)x % 60 == (Z)(x % 60), "64-bit and 128-bit truncating remainders agree");
  STEP(FD((Z)x, 24) == (Z)(x / 24) - (x % 24 < 0 ? 1 : 0) && FD((Z)x, 60) == (Z)(x / 60) - (x % 60 < 0 ? 1 : 0), "floor quotients");
  STEP(FM((Z)x, 24) == (Z)(x % 24) + (x % 24 < 0 ? 24 : 0) && FM((Z)x, 60) == (Z)(x % 60) + (x % 60 < 0 ? 60 : 0), "floor remainders");
  __CPROVER_assert(lemma_carry_ENS(x), "lemma_carry.ENS");
}
void pl_lemma_dm_small(void)
{
  diff_t x;
  REVEAL_DM24((Z)(x)); REVEAL_DM60((Z)(x));
  __CPROVER_assert(lemma_dm_small_ENS(x), "lemma_dm_small.ENS");
}
void pl_lemma_validday(void)
{
  year_t y; int m, d;
  __CPROVER_assume(lemma_validday_REQ(y, m, d));
  REVEAL_DAYORD(y, m, d); REVEAL_MONBASE(y, (diff_t)(m));
  USE(lemma_cong2_REQ(y, NMON_Y1(y, (diff_t)(m)), m, NMON_M1((diff_t)(m)), 1), lemma_cong2_ENS(y, NMON_Y1(y, (diff_t)(m)), m, NMON_M1((diff_t)(m)), 1), "cong2");
  __CPROVER_assert(lemma_validday_ENS(y, m, d), "lemma_validday.ENS");
}
void pl_lemma_nmonpre(void)
{
  year_t y; int m; diff_t d; Z cd;
  __CPROVER_assume(lemma_nmonpre_REQ(y, m, d, cd));
  REVEAL_MONBASE(y, (diff_t)(m)); REVEAL_NMON_PRE(y, (diff_t)(m), d, cd);
  STEP(NMON_Y1(y, (diff_t)(m)) == (Z)y, "no month carry for a month in 1..12");
  __CPROVER_assert(lemma_nmonpre_ENS(y, m, d, cd), "lemma_nmonpre.ENS");
}
void pl_lemma_stepmon(void)
{
  year_t y; int m; diff_t n;
  __CPROVER_assume(lemma_stepmon_REQ(y, m, n));
  STEP((Z)(n) == 12 * (Z)((n) / 12) + (n) % 12 && -12 < (n) % 12 && (n) % 12 < 12 && ((n) >= 0 ? (n) % 12 >= 0 && (n) / 12 >= 0 : (n) % 12 <= 0 && (n) / 12 <= 0), "truncating split of n");
  STEP(FD((Z)12 * SM_Y(y, n) + (SM_M(m, n) - 1), 12) == SM_Y(y, n) + FD(SM_M(m, n) - 1, 12), "quotient by 12 of 12a+b");
  STEP((Z)12 * FD(SM_M(m, n) - 1, 12) + FM(SM_M(m, n) - 1, 12) == SM_M(m, n) - 1 && -1 <= FD(SM_M(m, n) - 1, 12) && FD(SM_M(m, n) - 1, 12) <= 1, "small month sum");
  __CPROVER_assert(lemma_stepmon_ENS(y, m, n), "lemma_stepmon.ENS");
}
void pl_lemma_fd12_mono(void)
{
  Z a, b;
  __CPROVER_assume(lemma_fd12_mono_REQ(a, b));
  __CPROVER_assert(lemma_fd12_mono_ENS(a, b), "lemma_fd12_mono.ENS");
}
void pl_lemma_monord_inj(void)
{
  fields a, b;
  __CPROVER_assume(lemma_monord_inj_REQ(a, b));
  __CPROVER_assert(lemma_monord_inj_ENS(a, b), "lemma_monord_inj.ENS");
}
void pl_lemma_nmonpre_carry(void)
{
  year_t y; diff_t m, d; Z cd;
  __CPROVER_assume(lemma_nmonpre_carry_REQ(y, m, d, cd));
  REVEAL_NMON_PRE(y, m, d, cd); REVEAL_NMON_PRE((year_t)NMON_Y1(y, m), (diff_t)(NMON_M1(m)), d, cd);
  STEP(NMON_Y1((year_t)NMON_Y1(y, m), (diff_t)(NMON_M1(m))) == NMON_Y1(y, m) && NMON_M1((diff_t)(NMON_M1(m))) == NMON_M1(m), "a carried month carries nothing further");
  USE(lemma_cong2_REQ(NMON_Y1((year_t)NMON_Y1(y, m), (diff_t)(NMON_M1(m))), NMON_Y1(y, m), NMON_M1((diff_t)(NMON_M1(m))), NMON_M1(m), 1),
      lemma_cong2_ENS(NMON_Y1((year_t)NMON_Y1(y, m), (diff_t)(NMON_M1(m))), NMON_Y1(y, m), NMON_M1((diff_t)(NMON_M1(m))), NMON_M1(m), 1), "cong2");
  __CPROVER_assert(lemma_nmonpre_carry_ENS(y, m, d, cd), "lemma_nmonpre_carry.ENS");
}
void pl_lemma_dm_lin(void)
{
  Z a, b;
  __CPROVER_assume(lemma_dm_lin_REQ(a, b));
  REVEAL_DM60(60 * (Z)(a) + (Z)(b)); REVEAL_DM60((Z)(b)); REVEAL_DM24(24 * (Z)(a) + (Z)(b)); REVEAL_DM24((Z)(b));
  STEP(FD(60 * a + b, 60) == a + FD(b, 60), "quotient by 60 of 60a+b");
  STEP(FD(24 * a + b, 24) == a + FD(b, 24), "quotient by 24 of 24a+b");
  STEP(FM(60 * a + b, 60) == FM(b, 60), "remainder by 60 of 60a+b");
  STEP(FM(24 * a + b, 24) == FM(b, 24), "remainder by 24 of 24a+b");
  __CPROVER_assert(lemma_dm_lin_ENS(a, b), "lemma_dm_lin.ENS");
}
void pl_lemma_dm_mono(void)
{
  Z a, b;
  __CPROVER_assume(lemma_dm_mono_REQ(a, b));
  REVEAL_DM60(a); REVEAL_DM60(b); REVEAL_DM24(a); REVEAL_DM24(b);
  __CPROVER_assert(lemma_dm_mono_ENS(a, b), "lemma_dm_mono.ENS");
}
void pl_lemma_validrepr(void)
{
  year_t y; int m, d;
  __CPROVER_assume(lemma_validrepr_REQ(y, m, d));
  REVEAL_DAYORD(y, m, d); REVEAL_VALIDD(y, m, d);
  USE(lemma_ordyear_REQ((Z)y, m, d), lemma_ordyear_ENS((Z)y, m, d), "ordyear(y)");
  USE(lemma_ordyear_REQ((Z)INT64_MIN, 1, 1), lemma_ordyear_ENS((Z)INT64_MIN, 1, 1), "ordyear(min)");
  USE(lemma_ordyear_REQ((Z)INT64_MAX, 12, 31), lemma_ordyear_ENS((Z)INT64_MAX, 12, 31), "ordyear(max)");
  __CPROVER_assert(lemma_validrepr_ENS(y, m, d), "lemma_validrepr.ENS");
}
void pl_lemma_ordy_mono(void)
{
  Z a, b;
  __CPROVER_assume(lemma_ordy_mono_REQ(a, b));
  STEP(FD(a + 3, 4) <= FD(b + 3, 4) && FD(a + 399, 400) <= FD(b + 399, 400), "the added leap counts are monotone");
  STEP(FD(b + 99, 100) - FD(a + 99, 100) <= FD(b + 3, 4) - FD(a + 3, 4), "there are at least as many multiples of 4 as of 100 in between");
  __CPROVER_assert(lemma_ordy_mono_ENS(a, b), "lemma_ordy_mono.ENS");
}
void pl_lemma_dayord_lex(void)
{
  year_t y1, y2; int m1, d1, m2, d2;
  __CPROVER_assume(lemma_dayord_lex_REQ(y1, m1, d1, y2, m2, d2));
  REVEAL_DAYORD(y1, m1, d1); REVEAL_DAYORD(y2, m2, d2); REVEAL_VALIDD(y1, m1, d1); REVEAL_VALIDD(y2, m2, d2);
  USE(lemma_ordyear_REQ((Z)y1, m1, d1), lemma_ordyear_ENS((Z)y1, m1, d1), "ordyear(y1)");
  USE(lemma_ordyear_REQ((Z)y2, m2, d2), lemma_ordyear_ENS((Z)y2, m2, d2), "ordyear(y2)");
  if (y1 < y2) {
    if (y1 + 1 < y2) USE(lemma_ordy_mono_REQ((Z)y1 + 1, (Z)y2), lemma_ordy_mono_ENS((Z)y1 + 1, (Z)y2), "ordy_mono(y1+1,y2)");
    STEP(ORD(y1, m1, d1) < ORD(y2, m2, d2), "an earlier year has smaller ordinals");
  } else if (y2 < y1) {
    if (y2 + 1 < y1) USE(lemma_ordy_mono_REQ((Z)y2 + 1, (Z)y1), lemma_ordy_mono_ENS((Z)y2 + 1, (Z)y1), "ordy_mono(y2+1,y1)");
    STEP(ORD(y2, m2, d2) < ORD(y1, m1, d1), "a later year has larger ordinals");
  } else {
    STEP((LEX3LT(y1, m1, d1, y2, m2, d2) ? 1 : 0) == (ORD(y1, m1, d1) < ORD(y2, m2, d2) ? 1 : 0) && ((m1 == m2 && d1 == d2) ? 1 : 0) == (ORD(y1, m1, d1) == ORD(y2, m2, d2) ? 1 : 0), "within one year months and days order the ordinal");
  }
  __CPROVER_assert(lemma_dayord_lex_ENS(y1, m1, d1, y2, m2, d2), "lemma_dayord_lex.ENS");
}
void pl_lemma_udiff(void)
{
  Z A, B, x24, x60a, x60b; int h1, h2, m1, m2, s1, s2;
  __CPROVER_assume(lemma_udiff_REQ(A, B, h1, h2, m1, m2, s1, s2, x24, x60a, x60b));
  __CPROVER_assert(lemma_udiff_ENS(A, B, h1, h2, m1, m2, s1, s2, x24, x60a, x60b), "lemma_udiff.ENS");
}
void pl_lemma_fits(void)
{
  Z u; int a, f;
  REVEAL_MUL(u);
  __CPROVER_assume(lemma_fits_REQ(u, a, f));
  __CPROVER_assert(lemma_fits_ENS(u, a, f), "lemma_fits.ENS");
}
void pl_lemma_trunc(void) { diff_t n; __CPROVER_assert(lemma_trunc_ENS(n), "lemma_trunc.ENS"); }
void pl_lemma_ordbound(void) { year_t y; int m, d; __CPROVER_assert(lemma_ordbound_ENS(y, m, d), "lemma_ordbound.ENS"); }
void pl_lemma_valid28(void)
{
  year_t y; int m, d;
  __CPROVER_assume(lemma_valid28_REQ(y, m, d));
  REVEAL_VALIDD(y, m, d); REVEAL_DAYORD(y, m, d); REVEAL_MONBASE(y, (diff_t)(m));
  USE(lemma_cong2_REQ(y, NMON_Y1(y, (diff_t)(m)), m, NMON_M1((diff_t)(m)), 1), lemma_cong2_ENS(y, NMON_Y1(y, (diff_t)(m)), m, NMON_M1((diff_t)(m)), 1), "cong2");
  __CPROVER_assert(lemma_valid28_ENS(y, m, d), "lemma_valid28.ENS");
}

void pl_lemma_period(void)
{
  Z e, k; int m, d;
  __CPROVER_assume(lemma_period_REQ(e, k, m, d));
  USE(lemma_fdshift_REQ(e, k, 3), lemma_fdshift4_ENS(e, k, 3), "fdshift4(e,k,3)");
  USE(lemma_fdshift_REQ(e, k, 99), lemma_fdshift100_ENS(e, k, 99), "fdshift100(e,k,99)");
  USE(lemma_fdshift_REQ(e, k, 399), lemma_fdshift400_ENS(e, k, 399), "fdshift400(e,k,399)");
  STEP(ORDY(e + 400 * k) == ORDY(e) + (Z)146097 * k, "ORDY is periodic");
  USE(lemma_fmshift_REQ(e, k), lemma_fmshift_ENS(e, k), "fmshift(e,k)");
  USE(lemma_leapidx_REQ(e + 400 * k), lemma_leapidx_ENS(e + 400 * k), "leapidx(e+400k)");
  USE(lemma_leapidx_REQ(e), lemma_leapidx_ENS(e), "leapidx(e)");
  STEP((LEAP((Z)(e + 400 * k)) ? 1 : 0) == (LEAP((Z)(e)) ? 1 : 0), "LEAP is periodic");
  __CPROVER_assert(lemma_period_ENS(e, k, m, d), "lemma_period.ENS");
}

void pl_lemma_ordyear(void)
{
  Z Y; int m, d;
  __CPROVER_assume(lemma_ordyear_REQ(Y, m, d));
  __CPROVER_assert(lemma_ordyear_ENS(Y, m, d), "lemma_ordyear.ENS");
}

void pl_lemma_lin_lift(void)
{
  Z oRY, oE1, oE, oY, oO1, oO, k0, k1; int iE, iO; year_t qc, qd; diff_t rc, rd, d0, cd0;
  __CPROVER_assume(lemma_lin_lift_REQ(oRY, oE1, oE, oY, oO1, oO, iE, iO, k0, k1, qc, qd, rc, rd, d0, cd0));
  __CPROVER_assert(lemma_lin_lift_ENS(oRY, oE1, oE, oY, oO1, oO, iE, iO, k0, k1, qc, qd, rc, rd, d0, cd0), "lemma_lin_lift.ENS");
}
void pl_lemma_lin_fits(void)
{
  Z RY, oy, oy1, o, T, omin, omax;
  __CPROVER_assume(lemma_lin_fits_REQ(RY, oy, oy1, o, T, omin, omax));
  __CPROVER_assert(lemma_lin_fits_ENS(RY, oy, oy1, o, T, omin, omax), "lemma_lin_fits.ENS");
}

void pl_lemma_nday_lift(void)
{
  year_t y, ey, oey, ry, qc, qd; int m0, m1; diff_t d0, cd0, d1, rc, rd;
  __CPROVER_assume(lemma_nday_lift_REQ(y, m0, d0, cd0, qc, qd, rc, rd, ey, oey, m1, d1, ry));
  const Z k0 = (Z)(y / 400);
  const Z k1 = k0 + (Z)qc + (Z)qd;
  const Z E = LIFT_E(ey, qc, qd);
  USE(lemma_div400_REQ(y), lemma_div400_ENS(y), "div400(y)");
  STEP(LIFT_RY(y, ey, oey) == E + 400 * k1, "result year = E + 400 k1");
  STEP((Z)y == (Z)oey + 400 * k0, "y = oey + 400 k0");
  USE(lemma_period_REQ(E, k1, m1, d1), lemma_period_ENS(E, k1, m1, d1), "period(E,k1)");
  USE(lemma_period_REQ((Z)oey, k0, m0, 1), lemma_period_ENS((Z)oey, k0, m0, 1), "period(oey,k0)");
  USE(lemma_cong_REQ(LIFT_RY(y, ey, oey), E + 400 * k1, m1, d1), lemma_cong_ENS(LIFT_RY(y, ey, oey), E + 400 * k1, m1, d1), "cong(RY)");
  USE(lemma_cong_REQ(y, (Z)oey + 400 * k0, m0, 1), lemma_cong_ENS(y, (Z)oey + 400 * k0, m0, 1), "cong(y)");
  REVEAL_ORDI((int)E, m1, (int)d1); REVEAL_ORDI((int)oey, m0, 1); REVEAL_LEAPI((int)E);
  USE(lemma_I_anchor_REQ((int)E, m1, (int)d1), lemma_I_anchor_ENS((int)E, m1, (int)d1), "I_anchor(E)");
  USE(lemma_I_anchor_REQ((int)oey, m0, 1), lemma_I_anchor_ENS((int)oey, m0, 1), "I_anchor(oey)");
  USE(lemma_cong_REQ(E, (Z)((int)E), m1, d1), lemma_cong_ENS(E, (Z)((int)E), m1, d1), "cong(E)");
  USE(lemma_cong_REQ((Z)oey, (Z)((int)oey), m0, 1), lemma_cong_ENS((Z)oey, (Z)((int)oey), m0, 1), "cong(oey)");
  STEP(ORD(E, m1, d1) == (Z)ORDI((int)E, m1, (int)d1), "small ordinal of E agrees with ORDI");
  STEP(ORD((Z)oey, m0, 1) == (Z)ORDI((int)oey, m0, 1), "small ordinal of oey agrees with ORDI");
  USE(lemma_lin_lift_REQ(ORD(LIFT_RY(y, ey, oey), m1, d1), ORD(E + 400 * k1, m1, d1), ORD(E, m1, d1),
                         ORD(y, m0, 1), ORD((Z)oey + 400 * k0, m0, 1), ORD((Z)oey, m0, 1),
                         ORDI((int)E, m1, (int)d1), ORDI((int)oey, m0, 1), k0, k1, qc, qd, rc, rd, d0, cd0),
      lemma_lin_lift_ENS(ORD(LIFT_RY(y, ey, oey), m1, d1), ORD(E + 400 * k1, m1, d1), ORD(E, m1, d1),
                         ORD(y, m0, 1), ORD((Z)oey + 400 * k0, m0, 1), ORD((Z)oey, m0, 1),
                         ORDI((int)E, m1, (int)d1), ORDI((int)oey, m0, 1), k0, k1, qc, qd, rc, rd, d0, cd0),
      "lin_lift");
  USE(lemma_ordyear_REQ(LIFT_RY(y, ey, oey), m1, d1), lemma_ordyear_ENS(LIFT_RY(y, ey, oey), m1, d1), "ordyear(RY)");
  USE(lemma_lin_fits_REQ(LIFT_RY(y, ey, oey), ORDY(LIFT_RY(y, ey, oey)), ORDY((Z)(LIFT_RY(y, ey, oey)) + 1), ORD(LIFT_RY(y, ey, oey), m1, d1),
                         NDAY_T(y, m0, d0, cd0), ORD_MIN, ORD_MAX),
      lemma_lin_fits_ENS(LIFT_RY(y, ey, oey), ORDY(LIFT_RY(y, ey, oey)), ORDY((Z)(LIFT_RY(y, ey, oey)) + 1), ORD(LIFT_RY(y, ey, oey), m1, d1),
                         NDAY_T(y, m0, d0, cd0), ORD_MIN, ORD_MAX),
      "lin_fits");
  STEP((Z)ry == LIFT_RY(y, ey, oey), "wrapped sum is the sum");
  USE(lemma_cong_REQ(ry, LIFT_RY(y, ey, oey), m1, d1), lemma_cong_ENS(ry, LIFT_RY(y, ey, oey), m1, d1), "cong(ry)");
  STEP(ORD(ry, m1, d1) == NDAY_T(y, m0, d0, cd0), "ORD(ry) is the target");
  STEP((LEAP((Z)E) ? 1 : 0) == (LEAP_I((int)E) ? 1 : 0), "LEAP of the small year in the cheap form");
  STEP((LEAP((Z)(ry)) ? 1 : 0) == (LEAP_I((int)E) ? 1 : 0), "LEAP(ry) == LEAP(E)");
  STEP((LEAP((Z)(ry)) ? 1 : 0) == (LEAPI((int)LIFT_E(ey, qc, qd)) ? 1 : 0), "LEAP(ry) in the form of the conclusion");
  __CPROVER_assert(lemma_nday_lift_ENS(y, m0, d0, cd0, qc, qd, rc, rd, ey, oey, m1, d1, ry), "lemma_nday_lift.ENS");
}
void pl_lemma_ord_reduce(void)
{
  year_t y; int m, d;
  __CPROVER_assume(lemma_ord_reduce_REQ(y, m, d));
  USE(lemma_div400_REQ(y), lemma_div400_ENS(y), "div400(y)");
  STEP((Z)y == (Z)(y % 400) + 400 * (Z)(y / 400), "y = y%400 + 400 (y/400)");
  USE(lemma_period_REQ((Z)(y % 400), (Z)(y / 400), m, d), lemma_period_ENS((Z)(y % 400), (Z)(y / 400), m, d), "period(y%400, y/400)");
  USE(lemma_cong_REQ(y, (Z)(y % 400) + 400 * (Z)(y / 400), m, d), lemma_cong_ENS(y, (Z)(y % 400) + 400 * (Z)(y / 400), m, d), "cong(y)");
  __CPROVER_assert(lemma_ord_reduce_ENS(y, m, d), "lemma_ord_reduce.ENS");
}
void pl_lemma_fd7shift(void) { Z x, k, c; __CPROVER_assume(lemma_fd7shift_REQ(x, k, c)); __CPROVER_assert(lemma_fd7shift_ENS(x, k, c), "lemma_fd7shift.ENS"); }
void pl_lemma_wd_period(void)
{
  Z x, k;
  __CPROVER_assume(lemma_wd_period_REQ(x, k));
  USE(lemma_fd7shift_REQ(x, k, WD_C), lemma_fd7shift_ENS(x, k, WD_C), "fd7shift(x,k,WD_C)");
  __CPROVER_assert(lemma_wd_period_ENS(x, k), "lemma_wd_period.ENS");
}
void pl_lemma_wd_add(void)
{
  Z x; int c;
  __CPROVER_assume(lemma_wd_add_REQ(x, c));
  REVEAL_WDAY(x); REVEAL_WDAY((Z)(x) + (c)); REVEAL_WDAY((Z)(x) - (c));
  STEP(FD((Z)((Z)(x) + (c)) + WD_C, 7) == FD((Z)(x) + WD_C, 7) + FD(FM((Z)(x) + WD_C, 7) + (c), 7), "quotient of x+c");
  STEP(FD((Z)((Z)(x) - (c)) + WD_C, 7) == FD((Z)(x) + WD_C, 7) + FD(FM((Z)(x) + WD_C, 7) - (c), 7), "quotient of x-c");
  STEP(WD((Z)(x) + (c)) == FM(WD(x) + (c), 7), "weekday of x+c");
  STEP(WD((Z)(x) - (c)) == FM(WD(x) - (c), 7), "weekday of x-c");
  __CPROVER_assert(lemma_wd_add_ENS(x, c), "lemma_wd_add.ENS");
}
void pl_lemma_wd_cong(void) { Z a, b; __CPROVER_assume(lemma_wd_cong_REQ(a, b)); __CPROVER_assert(lemma_wd_cong_ENS(a, b), "lemma_wd_cong.ENS"); }
#pragma CPROVER check pop

/* lemma_dd: the calendar reasoning behind impl::day_difference, kept out of the function's own queries */
#define DD_SIDE(y, m, d) \
  REVEAL_DAYORD(y, m, d); REVEAL_ORDI(DD_E(y), m, d); \
  USE(lemma_ord_reduce_REQ(y, m, d), lemma_ord_reduce_ENS(y, m, d), "ord_reduce"); \
  USE(lemma_I_anchor_REQ(DD_E(y), m, d), lemma_I_anchor_ENS(DD_E(y), m, d), "I_anchor"); \
  USE(lemma_cong_REQ((Z)((y) % 400), (Z)DD_E(y), m, d), lemma_cong_ENS((Z)((y) % 400), (Z)DD_E(y), m, d), "cong"); \
  STEP(DAYORD(y, m, d) == ORD((Z)((y) % 400), m, d) + (Z)146097 * (Z)((y) / 400), "ordinal reduced to the cycle"); \
  STEP(ORD((Z)((y) % 400), m, d) == (Z)ORDI(DD_E(y), m, d), "cycle ordinal in 32 bits"); \
  STEP(DAYORD(y, m, d) == (Z)ORDI(DD_E(y), m, d) + (Z)146097 * (Z)((y) / 400), "ordinal = cycle ordinal + 146097 per cycle")
void pl_lemma_dd(void)
{
  year_t y1, y2; int m1, d1, m2, d2;
  __CPROVER_assume(lemma_dd_REQ(y1, m1, d1, y2, m2, d2));
  DD_SIDE(y1, m1, d1);
  DD_SIDE(y2, m2, d2);
  STEP(-292194 < (Z)ORDI(DD_E(y1), m1, d1) - (Z)ORDI(DD_E(y2), m2, d2) && (Z)ORDI(DD_E(y1), m1, d1) - (Z)ORDI(DD_E(y2), m2, d2) < 292194, "two dates of the cycle window are less than two cycles apart");
  STEP(DAYORD(y1, m1, d1) - DAYORD(y2, m2, d2) == (Z)146097 * ((Z)(y1 / 400) - (Z)(y2 / 400)) + (Z)ORDI(DD_E(y1), m1, d1) - (Z)ORDI(DD_E(y2), m2, d2), "distance = cycles + window distance");
  USE(lemma_dd3_REQ((Z)(y1 / 400) - (Z)(y2 / 400), (Z)ORDI(DD_E(y1), m1, d1) - (Z)ORDI(DD_E(y2), m2, d2)), lemma_dd3_ENS((Z)(y1 / 400) - (Z)(y2 / 400), (Z)ORDI(DD_E(y1), m1, d1) - (Z)ORDI(DD_E(y2), m2, d2)), "dd3");
  __CPROVER_assert(lemma_dd_ENS(y1, m1, d1, y2, m2, d2), "lemma_dd.ENS");
}

void pl_lemma_c4(void)
{
  year_t y1, y2, qa, qb; diff_t a, b;
  __CPROVER_assume(lemma_c4_REQ(y1, a, y2, b, qa, qb));
  STEP(FITS64((Z)y1 - (Z)a) && FITS64((Z)y2 - (Z)b), "removing a remainder of the same sign cannot overflow");
  STEP((Z)(diff_t)(y1 - a) == (Z)400 * (Z)qa && (Z)(diff_t)(y2 - b) == (Z)400 * (Z)qb, "the two reduced years");
  STEP(FITS64((Z)(diff_t)(y1 - a) - (Z)(diff_t)(y2 - b)), "their difference fits");
  USE(lemma_dist400_REQ(qa, qb), lemma_dist400_ENS(qa, qb), "dist400");
  { const diff_t gx = y1 - a; const diff_t gy = y2 - b; const diff_t gc = gx - gy;
    STEP((Z)gc == (Z)gx - (Z)gy, "no wrap-around");
    STEP((Z)gc == (Z)400 * ((Z)qa - (Z)qb), "the 64-bit difference is the mathematical one"); }
  __CPROVER_assert(lemma_c4_ENS(y1, a, y2, b, qa, qb), "lemma_c4.ENS");
}
void pl_lemma_q400(void)
{
  diff_t x; Z k;
  __CPROVER_assume(lemma_q400_REQ(x, k));
  __CPROVER_assert(lemma_q400_ENS(x, k), "lemma_q400.ENS");
}

void pl_lemma_dd3(void)
{
  Z qd, od;
  __CPROVER_assume(lemma_dd3_REQ(qd, od));
  __CPROVER_assert(lemma_dd3_ENS(qd, od), "lemma_dd3.ENS");
}

void pl_lemma_dist400(void)
{
  Z x, y;
  __CPROVER_assume(lemma_dist400_REQ(x, y));
  __CPROVER_assert(lemma_dist400_ENS(x, y), "lemma_dist400.ENS");
}

/* ---- C05 inverse laws ---- */
void pl_lemma_osec_inj(void)
{
  fields a, b;
  __CPROVER_assume(lemma_osec_inj_REQ(a, b));
  BOUND_DAYORD(a.y, a.m, a.d); BOUND_DAYORD(b.y, b.m, b.d);
  USE(lemma_dayord_lex_REQ(a.y, a.m, a.d, b.y, b.m, b.d), lemma_dayord_lex_ENS(a.y, a.m, a.d, b.y, b.m, b.d), "dayord_lex");
  STEP(ODAY(a) == ODAY(b) && a.hh == b.hh && a.mm == b.mm && a.ss == b.ss, "mixed-radix digits of equal second ordinals are equal");
  __CPROVER_assert(lemma_osec_inj_ENS(a, b), "lemma_osec_inj.ENS");
}
void pl_lemma_unitrepr(void)
{
  fields a;
  __CPROVER_assume(lemma_unitrepr_REQ(a));
  BOUND_DAYORD(a.y, a.m, a.d);
  USE(lemma_validrepr_REQ(a.y, a.m, a.d), lemma_validrepr_ENS(a.y, a.m, a.d), "validrepr");
  USE(lemma_dm_small_REQ(a.ss), lemma_dm_small_ENS(a.ss), "dm_small"); USE(lemma_dm_small_REQ(a.mm), lemma_dm_small_ENS(a.mm), "dm_small"); USE(lemma_dm_small_REQ(a.hh), lemma_dm_small_ENS(a.hh), "dm_small");
  USE(lemma_dm_lin_REQ(OMIN(a), a.ss), lemma_dm_lin_ENS(OMIN(a), a.ss), "dm_lin"); USE(lemma_dm_lin_REQ(OHOUR(a), a.mm), lemma_dm_lin_ENS(OHOUR(a), a.mm), "dm_lin");
  USE(lemma_dm_lin_REQ(ODAY(a), a.hh), lemma_dm_lin_ENS(ODAY(a), a.hh), "dm_lin");
  STEP(FD60(OSEC(a)) == OMIN(a) && FD60(OMIN(a)) == OHOUR(a) && FD24(OHOUR(a)) == ODAY(a), "floor chain of a valid civil second");
  __CPROVER_assert(lemma_unitrepr_ENS(a), "lemma_unitrepr.ENS");
}
/* (a + n) - n == a   and   (a - b) + b == a,  per alignment: the operators are replaced by their contracts */
#define C05_INJ_second(s, a)
#define C05_INJ_minute(s, a)
#define C05_INJ_hour(s, a)
#define C05_INJ_day(s, a)
#define C05_INJ_year(s, a)
#define C05_INJ_month(s, a) USE(lemma_monord_inj_REQ(s, a), lemma_monord_inj_ENS(s, a), "monord_inj");
#define C05_INVERSE(T) \
void pl_C05_inverse_##T(void) \
{ \
  fields a; diff_t n; \
  __CPROVER_assume(OVALID(a) && ALIGNED_##T(a) && REPR_##T(UNIT_##T(a) + n)); \
  USE(lemma_unitrepr_REQ(a), lemma_unitrepr_ENS(a), "unitrepr"); \
  fields r = ct_##T##_plus(a, n); \
  fields s = ct_##T##_minus(r, n); \
  C05_INJ_##T(s, a) \
  USE(lemma_osec_inj_REQ(s, a), lemma_osec_inj_ENS(s, a), "osec_inj"); \
  __CPROVER_assert(FIELDS_EQ(s, a), "C05: (a + n) - n == a"); \
} \
void pl_C05_diffplus_##T(void) \
{ \
  fields a, b; \
  __CPROVER_assume(OVALID(a) && ALIGNED_##T(a) && OVALID(b) && ALIGNED_##T(b) && FITS64(UNIT_##T(a) - UNIT_##T(b))); \
  USE(lemma_unitrepr_REQ(a), lemma_unitrepr_ENS(a), "unitrepr"); \
  diff_t d = ct_##T##_diff(a, b); \
  fields r = ct_##T##_plus(b, d); \
  C05_INJ_##T(r, a) \
  USE(lemma_osec_inj_REQ(r, a), lemma_osec_inj_ENS(r, a), "osec_inj"); \
  __CPROVER_assert(FIELDS_EQ(r, a), "C05: (a - b) + b == a"); \
}
C05_INVERSE(second)
C05_INVERSE(minute)
C05_INVERSE(hour)
C05_INVERSE(day)
C05_INVERSE(year)
C05_INVERSE(month)
/* reachability probe for the inverse-law lemmas (goal marked probe=True, run with every C05 check: its assertion must FAIL) */
void pl_C05_probe(void)
{
  fields a; diff_t n;
  __CPROVER_assume(OVALID(a) && ALIGNED_second(a) && REPR_second(UNIT_second(a) + n));
  USE(lemma_unitrepr_REQ(a), lemma_unitrepr_ENS(a), "unitrepr");
  fields r = ct_second_plus(a, n);
  fields s = ct_second_minus(r, n);
  USE(lemma_osec_inj_REQ(s, a), lemma_osec_inj_ENS(s, a), "osec_inj");
  __CPROVER_assert(!(n == 86400 && a.y == 2020 && s.y == 2020), "PROBE: must fail (the end of the harness is reachable with a concrete-looking input)");
}
/* the same probe for the month alignment (must FAIL: 2020-03 + 14 months - 14 months is reachable) */
void pl_C05_probe_month(void)
{
  fields a; diff_t n;
  __CPROVER_assume(OVALID(a) && ALIGNED_month(a) && REPR_month(UNIT_month(a) + n));
  USE(lemma_unitrepr_REQ(a), lemma_unitrepr_ENS(a), "unitrepr");
  fields r = ct_month_plus(a, n);
  fields s = ct_month_minus(r, n);
  USE(lemma_monord_inj_REQ(s, a), lemma_monord_inj_ENS(s, a), "monord_inj");
  __CPROVER_assert(!(n == 14 && a.y == 2020 && a.m == 3 && s.y == 2020 && r.y == 2021 && r.m == 5), "PROBE: must fail (the end of the harness is reachable with a concrete-looking input)");
}
