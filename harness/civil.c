/* /verif/harness/civil.c - lemma bodies, lemma proofs and property lemmas for unit civil. */

/* bodies of the ghost lemma functions (never executed: every call is replaced by the contract) */
void lemma_quot_bounds(diff_t cd, diff_t d) {}
void lemma_shift400(year_t x, year_t qc, year_t qd) {}
void lemma_nday_lift(year_t y, int m0, diff_t d0, diff_t cd0, year_t ey, year_t oey, int m1, diff_t d1, year_t ry) {}

/* a proof step: P is an obligation, and is then available to the following steps */
#define STEP(P, msg) do { __CPROVER_assert(P, msg); __CPROVER_assume(P); } while (0)
#pragma CPROVER check push
#pragma CPROVER check disable "signed-overflow"
#pragma CPROVER check disable "conversion"

void pl_lemma_quot_bounds(void)
{
  diff_t cd, d;
  __CPROVER_assume(lemma_quot_bounds_REQ(cd, d));
  __CPROVER_assert(lemma_quot_bounds_ENS(cd, d), "lemma_quot_bounds.ENS");
}

void pl_lemma_shift400(void)
{
  year_t x, qc, qd;
  __CPROVER_assume(lemma_shift400_REQ(x, qc, qd));
  STEP(-((year_t)1 << 58) < x && x < ((year_t)1 << 58), "x is bounded");
  STEP(FD(x - K400(qc, qd), 400) == FD(x, 400) - (qc + qd), "quotient shift by 400");
  STEP(FM(x - K400(qc, qd), 400) == FM(x, 400), "remainder unchanged");
  __CPROVER_assert(lemma_shift400_ENS(x, qc, qd), "lemma_shift400.ENS");
}

/* use of an already proved lemma inside another lemma's proof: check its hypothesis, assume its conclusion */
#define USE(REQ, ENS, msg) do { __CPROVER_assert(REQ, "hypothesis of " msg); __CPROVER_assume(ENS); } while (0)

void pl_lemma_div146097(void) { diff_t x; __CPROVER_assert(lemma_div146097_ENS(x), "lemma_div146097.ENS"); }
void pl_lemma_div400(void) { year_t y; __CPROVER_assert(lemma_div400_ENS(y), "lemma_div400.ENS"); }
void pl_lemma_fdshift4(void) { Z e, k; int c; __CPROVER_assume(lemma_fdshift_REQ(e, k, c)); __CPROVER_assert(lemma_fdshift4_ENS(e, k, c), "lemma_fdshift4.ENS"); }
void pl_lemma_fdshift100(void) { Z e, k; int c; __CPROVER_assume(lemma_fdshift_REQ(e, k, c)); __CPROVER_assert(lemma_fdshift100_ENS(e, k, c), "lemma_fdshift100.ENS"); }
void pl_lemma_fdshift400(void) { Z e, k; int c; __CPROVER_assume(lemma_fdshift_REQ(e, k, c)); __CPROVER_assert(lemma_fdshift400_ENS(e, k, c), "lemma_fdshift400.ENS"); }
void pl_lemma_fmshift(void)
{
  Z e, k;
  __CPROVER_assume(lemma_fmshift_REQ(e, k));
  USE(lemma_fdshift_REQ(e, k, 0), lemma_fdshift400_ENS(e, k, 0), "fdshift400(e,k,0)");
  __CPROVER_assert(lemma_fmshift_ENS(e, k), "lemma_fmshift.ENS");
}
void pl_lemma_leapidx(void) { Z Y; __CPROVER_assume(lemma_leapidx_REQ(Y)); __CPROVER_assert(lemma_leapidx_ENS(Y), "lemma_leapidx.ENS"); }
void pl_lemma_cong(void) { Z A, B; int m, d; __CPROVER_assume(lemma_cong_REQ(A, B, m, d)); __CPROVER_assert(lemma_cong_ENS(A, B, m, d), "lemma_cong.ENS"); }

void pl_lemma_period(void)
{
  Z e, k; int m, d;
  __CPROVER_assume(lemma_period_REQ(e, k, m, d));
  USE(lemma_fdshift_REQ(e, k, 3), lemma_fdshift4_ENS(e, k, 3), "fdshift4(e,k,3)");
  USE(lemma_fdshift_REQ(e, k, 99), lemma_fdshift100_ENS(e, k, 99), "fdshift100(e,k,99)");
  USE(lemma_fdshift_REQ(e, k, 399), lemma_fdshift400_ENS(e, k, 399), "fdshift400(e,k,399)");
  STEP(ORDY(e + 400 * k) == ORDY(e) + (Z)146097 * k, "ORDY is periodic");
  USE(lemma_fmshift_REQ(e, k), lemma_fmshift_ENS(e, k), "fmshift(e,k)");
  USE(lemma_leapidx_REQ(e + 400 * k), lemma_leapidx_ENS(e + 400 * k), "leapidx(e+400k)");
  USE(lemma_leapidx_REQ(e), lemma_leapidx_ENS(e), "leapidx(e)");
  STEP((LEAP((Z)(e + 400 * k)) ? 1 : 0) == (LEAP((Z)(e)) ? 1 : 0), "LEAP is periodic");
  __CPROVER_assert(lemma_period_ENS(e, k, m, d), "lemma_period.ENS");
}

void pl_lemma_ordyear(void)
{
  Z Y; int m, d;
  __CPROVER_assume(lemma_ordyear_REQ(Y, m, d));
  __CPROVER_assert(lemma_ordyear_ENS(Y, m, d), "lemma_ordyear.ENS");
}

void pl_lemma_lin_lift(void)
{
  Z oRY, oE1, oE, oY, oO1, oO, k0, k1; int iE, iO; year_t qc, qd; diff_t rc, rd, d0, cd0;
  __CPROVER_assume(lemma_lin_lift_REQ(oRY, oE1, oE, oY, oO1, oO, iE, iO, k0, k1, qc, qd, rc, rd, d0, cd0));
  __CPROVER_assert(lemma_lin_lift_ENS(oRY, oE1, oE, oY, oO1, oO, iE, iO, k0, k1, qc, qd, rc, rd, d0, cd0), "lemma_lin_lift.ENS");
}
void pl_lemma_lin_fits(void)
{
  Z RY, oy, oy1, o, T, omin, omax;
  __CPROVER_assume(lemma_lin_fits_REQ(RY, oy, oy1, o, T, omin, omax));
  __CPROVER_assert(lemma_lin_fits_ENS(RY, oy, oy1, o, T, omin, omax), "lemma_lin_fits.ENS");
}

void pl_lemma_nday_lift(void)
{
  year_t y, ey, oey, ry; int m0, m1; diff_t d0, cd0, d1;
  __CPROVER_assume(lemma_nday_lift_REQ(y, m0, d0, cd0, ey, oey, m1, d1, ry));
  const Z k0 = (Z)(y / 400);
  const Z k1 = k0 + (Z)(cd0 / 146097) + (Z)(d0 / 146097);
  const Z E = LIFT_E(ey, d0, cd0);
  USE(lemma_div146097_REQ(cd0), lemma_div146097_ENS(cd0), "div146097(cd0)");
  USE(lemma_div146097_REQ(d0), lemma_div146097_ENS(d0), "div146097(d0)");
  USE(lemma_div400_REQ(y), lemma_div400_ENS(y), "div400(y)");
  STEP(LIFT_RY(y, ey, oey) == E + 400 * k1, "result year = E + 400 k1");
  STEP((Z)y == (Z)oey + 400 * k0, "y = oey + 400 k0");
  USE(lemma_period_REQ(E, k1, m1, d1), lemma_period_ENS(E, k1, m1, d1), "period(E,k1)");
  USE(lemma_period_REQ((Z)oey, k0, m0, 1), lemma_period_ENS((Z)oey, k0, m0, 1), "period(oey,k0)");
  USE(lemma_cong_REQ(LIFT_RY(y, ey, oey), E + 400 * k1, m1, d1), lemma_cong_ENS(LIFT_RY(y, ey, oey), E + 400 * k1, m1, d1), "cong(RY)");
  USE(lemma_cong_REQ(y, (Z)oey + 400 * k0, m0, 1), lemma_cong_ENS(y, (Z)oey + 400 * k0, m0, 1), "cong(y)");
  STEP(ORD(E, m1, d1) == (Z)ORD_I((int)E, m1, (int)d1), "small ordinal of E agrees with ORD_I");
  STEP(ORD((Z)oey, m0, 1) == (Z)ORD_I((int)oey, m0, 1), "small ordinal of oey agrees with ORD_I");
  USE(lemma_lin_lift_REQ(ORD(LIFT_RY(y, ey, oey), m1, d1), ORD(E + 400 * k1, m1, d1), ORD(E, m1, d1),
                         ORD(y, m0, 1), ORD((Z)oey + 400 * k0, m0, 1), ORD((Z)oey, m0, 1),
                         ORD_I((int)E, m1, (int)d1), ORD_I((int)oey, m0, 1), k0, k1, cd0 / 146097, d0 / 146097, cd0 % 146097, d0 % 146097, d0, cd0),
      lemma_lin_lift_ENS(ORD(LIFT_RY(y, ey, oey), m1, d1), ORD(E + 400 * k1, m1, d1), ORD(E, m1, d1),
                         ORD(y, m0, 1), ORD((Z)oey + 400 * k0, m0, 1), ORD((Z)oey, m0, 1),
                         ORD_I((int)E, m1, (int)d1), ORD_I((int)oey, m0, 1), k0, k1, cd0 / 146097, d0 / 146097, cd0 % 146097, d0 % 146097, d0, cd0),
      "lin_lift");
  USE(lemma_ordyear_REQ(LIFT_RY(y, ey, oey), m1, d1), lemma_ordyear_ENS(LIFT_RY(y, ey, oey), m1, d1), "ordyear(RY)");
  USE(lemma_lin_fits_REQ(LIFT_RY(y, ey, oey), ORDY(LIFT_RY(y, ey, oey)), ORDY((Z)(LIFT_RY(y, ey, oey)) + 1), ORD(LIFT_RY(y, ey, oey), m1, d1),
                         NDAY_T(y, m0, d0, cd0), ORD_MIN, ORD_MAX),
      lemma_lin_fits_ENS(LIFT_RY(y, ey, oey), ORDY(LIFT_RY(y, ey, oey)), ORDY((Z)(LIFT_RY(y, ey, oey)) + 1), ORD(LIFT_RY(y, ey, oey), m1, d1),
                         NDAY_T(y, m0, d0, cd0), ORD_MIN, ORD_MAX),
      "lin_fits");
  STEP((Z)ry == LIFT_RY(y, ey, oey), "wrapped sum is the sum");
  USE(lemma_cong_REQ(ry, LIFT_RY(y, ey, oey), m1, d1), lemma_cong_ENS(ry, LIFT_RY(y, ey, oey), m1, d1), "cong(ry)");
  STEP(ORD(ry, m1, d1) == NDAY_T(y, m0, d0, cd0), "ORD(ry) is the target");
  STEP((LEAP((Z)E) ? 1 : 0) == (LEAP((int)E) ? 1 : 0), "LEAP of the small year in 32 bits");
  STEP((LEAP((Z)(ry)) ? 1 : 0) == (LEAP((int)E) ? 1 : 0), "LEAP(ry) == LEAP(E)");
  __CPROVER_assert(lemma_nday_lift_ENS(y, m0, d0, cd0, ey, oey, m1, d1, ry), "lemma_nday_lift.ENS");
}
#pragma CPROVER check pop
