/* /verif/harness/posix.c - C16: POSIX TZ strings.  The specification recogniser below is written from
 * the grammar in the property statement, NOT from the cctz code:
 *
 *   spec   = std offset [ dst [ offset ] , date [ / time ] , date [ / time ] ]      (nothing may follow)
 *   std,dst= '<' any bytes except '>' '>'   |   3 or more bytes none of which is a digit, '+', '-' or ','
 *   offset = [+|-] hh [: mm [: ss]]     hh 0..24, mm 0..59, ss 0..59     (POSIX sign: positive = west = negative UTC offset)
 *   date   = 'J' n (1..365)  |  n (0..365)  |  'M' m '.' w '.' d   (m 1..12, w 1..5, d 0..6)
 *   time   = [+|-] hh [: mm [: ss]]     hh 0..167 ; default 02:00:00
 *   default dst offset = std offset + 1 hour
 *
 * The property lemma runs the real ParsePosixSpec and this recogniser on the same symbolic string of
 * length <= POSIX_MAXLEN and requires equal acceptance and, on acceptance, equal fields - with the result
 * structure filled with arbitrary garbage beforehand, so a field the code forgets to set is a failure.
 * This is a BOUNDED check (all strings up to POSIX_MAXLEN bytes, loops unwound with unwinding assertions). */
size_t gs_n;   /* ghost (contracts/posix.h) */
int gp_h, gp_m, gp_s;
#ifndef POSIX_MAXLEN
#define POSIX_MAXLEN 24
#endif

typedef struct { int ok; size_t pos; long val; } sp_res;

/* decimal number: 1+ digits, value saturated at 100000 (every range is far below) */
static sp_res sp_int(const char* s, size_t n, size_t i, long lo, long hi)
{
  sp_res r; r.ok = 0; r.pos = i; r.val = 0;
  size_t start = i;
  while (i < n && s[i] >= '0' && s[i] <= '9') {
    r.val = r.val * 10 + (s[i] - '0');
    if (r.val > 100000) r.val = 100000;
    ++i;
  }
  r.pos = i;
  r.ok = (i > start && r.val >= lo && r.val <= hi);
  return r;
}

/* [+|-] hh[:mm[:ss]] -> seconds, multiplied by sign */
static sp_res sp_offset(const char* s, size_t n, size_t i, long maxh, long sign)
{
  sp_res r; r.ok = 0; r.pos = i; r.val = 0;
  if (i < n && (s[i] == '+' || s[i] == '-')) { if (s[i] == '-') sign = -sign; ++i; }
  sp_res h = sp_int(s, n, i, 0, maxh);
  if (!h.ok) return r;
  long mm = 0, ss = 0;
  i = h.pos;
  if (i < n && s[i] == ':') {
    sp_res m = sp_int(s, n, i + 1, 0, 59);
    if (!m.ok) return r;
    mm = m.val; i = m.pos;
    if (i < n && s[i] == ':') {
      sp_res q = sp_int(s, n, i + 1, 0, 59);
      if (!q.ok) return r;
      ss = q.val; i = q.pos;
    }
  }
  r.ok = 1; r.pos = i; r.val = sign * ((h.val * 60 + mm) * 60 + ss);
  return r;
}

/* abbreviation: returns text span [a0, a1) */
typedef struct { int ok; size_t pos; size_t a0, a1; } sp_abbr_res;
static sp_abbr_res sp_abbr(const char* s, size_t n, size_t i)
{
  sp_abbr_res r; r.ok = 0; r.pos = i; r.a0 = r.a1 = i;
  if (i < n && s[i] == '<') {
    size_t j = i + 1;
    while (j < n && s[j] != '>') ++j;
    if (j >= n) return r;
    r.ok = 1; r.a0 = i + 1; r.a1 = j; r.pos = j + 1;
    return r;
  }
  size_t j = i;
  while (j < n && !(s[j] >= '0' && s[j] <= '9') && s[j] != '+' && s[j] != '-' && s[j] != ',') ++j;
  if (j - i < 3) return r;
  r.ok = 1; r.a0 = i; r.a1 = j; r.pos = j;
  return r;
}

typedef struct { int ok; size_t pos; int fmt; long a, b, c; long time; } sp_dt_res;
/* ',' date [ '/' time ] */
static sp_dt_res sp_datetime(const char* s, size_t n, size_t i)
{
  sp_dt_res r; r.ok = 0; r.pos = i; r.fmt = 0; r.a = r.b = r.c = 0; r.time = 7200;
  if (!(i < n && s[i] == ',')) return r;
  ++i;
  if (i < n && s[i] == 'M') {
    sp_res m = sp_int(s, n, i + 1, 1, 12);
    if (!m.ok || !(m.pos < n && s[m.pos] == '.')) return r;
    sp_res w = sp_int(s, n, m.pos + 1, 1, 5);
    if (!w.ok || !(w.pos < n && s[w.pos] == '.')) return r;
    sp_res d = sp_int(s, n, w.pos + 1, 0, 6);
    if (!d.ok) return r;
    r.fmt = PosixTransition_M; r.a = m.val; r.b = w.val; r.c = d.val; i = d.pos;
  } else if (i < n && s[i] == 'J') {
    sp_res d = sp_int(s, n, i + 1, 1, 365);
    if (!d.ok) return r;
    r.fmt = PosixTransition_J; r.a = d.val; i = d.pos;
  } else {
    sp_res d = sp_int(s, n, i, 0, 365);
    if (!d.ok) return r;
    r.fmt = PosixTransition_N; r.a = d.val; i = d.pos;
  }
  if (i < n && s[i] == '/') {
    sp_res t = sp_offset(s, n, i + 1, 167, 1);
    if (!t.ok) return r;
    r.time = t.val; i = t.pos;
  }
  r.ok = 1; r.pos = i;
  return r;
}

static bool abbr_is(const vstr* v, const char* s, size_t a0, size_t a1)
{
  if (v->size != a1 - a0) return 0;
  for (size_t k = 0; k < a1 - a0; ++k) if (v->data[k] != s[a0 + k]) return 0;
  return 1;
}
static bool dt_is(const PosixTransition* t, const sp_dt_res* d)
{
  if ((int)t->date.fmt != d->fmt) return 0;
  if (d->fmt == PosixTransition_M) { if (t->date.m.month != d->a || t->date.m.week != d->b || t->date.m.weekday != d->c) return 0; }
  else if (d->fmt == PosixTransition_J) { if (t->date.j.day != d->a) return 0; }
  else { if (t->date.n.day != d->a) return 0; }
  return t->time.offset == d->time;
}

void pl_C16_grammar(void)
{
  vstr spec;
  PosixTimeZone res;                       /* arbitrary garbage: a field the parser does not set stays arbitrary */
  __CPROVER_assume(VSTR_WF(spec) && spec.size <= POSIX_MAXLEN);
  __CPROVER_assume(VSTR_WF(res.std_abbr) && VSTR_WF(res.dst_abbr));
#ifndef POSIX_ALLOW_EMBEDDED_NUL
  /* text strings: no NUL byte before the end (the embedded-NUL case is examined separately) */
  for (size_t k = 0; k < POSIX_MAXLEN; ++k) __CPROVER_assume(k >= spec.size || spec.data[k] != 0);
#endif
  const vstr dst0 = res.dst_abbr;
  bool got = ParsePosixSpec(&spec, &res);

  const char* s = spec.data; const size_t n = spec.size;
  int want = 0, has_dst = 0;
  sp_abbr_res sa, da; sp_res so, dof; sp_dt_res t1, t2;
  if (!(n > 0 && s[0] == ':')) {
    sa = sp_abbr(s, n, 0);
    if (sa.ok) {
      so = sp_offset(s, n, sa.pos, 24, -1);
      if (so.ok) {
        if (so.pos == n) want = 1;
        else {
          da = sp_abbr(s, n, so.pos);
          if (da.ok) {
            dof.val = so.val + 3600; dof.pos = da.pos; dof.ok = 1;
            if (!(da.pos < n && s[da.pos] == ',')) dof = sp_offset(s, n, da.pos, 24, -1);
            if (dof.ok) {
              t1 = sp_datetime(s, n, dof.pos);
              if (t1.ok) { t2 = sp_datetime(s, n, t1.pos); if (t2.ok && t2.pos == n) { want = 1; has_dst = 1; } }
            }
          }
        }
      }
    }
  }
  __CPROVER_assert(got == (want != 0), "C16: accepted if and only if the string is in the grammar");
  if (got && want) {
    __CPROVER_assert(abbr_is(&res.std_abbr, s, sa.a0, sa.a1), "C16: std abbreviation is the one spelled");
    __CPROVER_assert(res.std_offset == so.val, "C16: std offset (POSIX sign inverted)");
    if (has_dst) {
      __CPROVER_assert(abbr_is(&res.dst_abbr, s, da.a0, da.a1), "C16: dst abbreviation is the one spelled");
      __CPROVER_assert(res.dst_offset == dof.val, "C16: dst offset (default std + 1h)");
      __CPROVER_assert(dt_is(&res.dst_start, &t1), "C16: start rule fully determined by the string");
      __CPROVER_assert(dt_is(&res.dst_end, &t2), "C16: end rule fully determined by the string");
    } else {
      __CPROVER_assert(abbr_is(&res.dst_abbr, dst0.data, 0, dst0.size), "C16: no dst part leaves the dst abbreviation as constructed (empty)");
    }
  }
}

/* vacuity guard: the grammar branch with both rules is reachable within the bound */
void pl_C16_cover(void)
{
  vstr spec; PosixTimeZone res;
  __CPROVER_assume(VSTR_WF(spec) && spec.size <= POSIX_MAXLEN);
  __CPROVER_assume(VSTR_WF(res.std_abbr) && VSTR_WF(res.dst_abbr));
  bool got = ParsePosixSpec(&spec, &res);
  __CPROVER_assert(!(got && res.dst_abbr.size == 3 && spec.size >= 15), "COVER: must FAIL - a full two-rule string is accepted within the bound");
}
