/* /verif/harness/rule.c - no property lemmas yet: TransOffset's contract is the statement */
