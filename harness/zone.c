/* /verif/harness/zone.c - ghost state, lemma proofs and property lemmas for the zone kernel */
size_t gz_i;
size_t gz_j;
size_t gz_k;
size_t gz_r;
bool gz_extended;
civil_lookup gz_mt;
size_t gz_hint;
#pragma CPROVER check push
#pragma CPROVER check disable "signed-overflow"
#pragma CPROVER check disable "conversion"
void pl_lemma_epoch(void)
{
  REVEAL_VALIDD(1970, 1, 1); REVEAL_DAYORD(1970, 1, 1);
  __CPROVER_assert(lemma_epoch_ENS(), "lemma_epoch.ENS");
}
void pl_lemma_secrepr(void)
{
  Z u; __CPROVER_assume(lemma_secrepr_REQ(u));
  USE(lemma_dm_range_REQ(u), lemma_dm_range_ENS(u), "dm_range(u)");
  USE(lemma_dm_range_REQ(FD60(u)), lemma_dm_range_ENS(FD60(u)), "dm_range(u/60)");
  USE(lemma_dm_range_REQ(FD60(FD60(u))), lemma_dm_range_ENS(FD60(FD60(u))), "dm_range(u/3600)");
  __CPROVER_assert(lemma_secrepr_ENS(u), "lemma_secrepr.ENS");
}
void pl_lemma_osec_lex(void)
{
  fields a, b;
  __CPROVER_assume(lemma_osec_lex_REQ(a, b));
  USE(lemma_dayord_lex_REQ(a.y, a.m, a.d, b.y, b.m, b.d), lemma_dayord_lex_ENS(a.y, a.m, a.d, b.y, b.m, b.d), "dayord_lex");
  BOUND_DAYORD(a.y, a.m, a.d); BOUND_DAYORD(b.y, b.m, b.d);
  __CPROVER_assert(lemma_osec_lex_ENS(a, b), "lemma_osec_lex.ENS");
}
#pragma CPROVER check pop

void pl_lemma_prepost(void)
{
  Z oc, ut; int offp, offn;
  __CPROVER_assume(lemma_prepost_REQ(oc, ut, offp, offn));
  __CPROVER_assert(lemma_prepost_ENS(oc, ut, offp, offn), "lemma_prepost.ENS");
}

void pl_lemma_tl_sat(void)
{
  Z f, c4;
  __CPROVER_assume(lemma_tl_sat_REQ(f, c4));
  __CPROVER_assert(lemma_tl_sat_ENS(f, c4), "lemma_tl_sat.ENS");
}

/* R19: the padded table elements are exactly 64 bytes (pointer <-> index conversion is a shift) */
_Static_assert(sizeof(Transition) == 64 && sizeof(TransitionType) == 64, "R19 padding");

/* the extracted constants have the values the specification macros use */
void pl_lemma_consts(void)
{
  __CPROVER_assert((Z)kSecsPer400Years == P400 && kSecsPerDay == 86400, "kSecsPer400Years is the number of seconds in 400 Gregorian years");
}
