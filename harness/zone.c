/* /verif/harness/zone.c - ghost state, lemma proofs and property lemmas for the zone kernel */
size_t gz_i;
size_t gz_j;
size_t gz_k;
size_t gz_r;
bool gz_extended;
civil_lookup gz_mt;
size_t gz_hint;
#pragma CPROVER check push
#pragma CPROVER check disable "signed-overflow"
#pragma CPROVER check disable "conversion"
void pl_lemma_epoch(void)
{
  REVEAL_VALIDD(1970, 1, 1); REVEAL_DAYORD(1970, 1, 1);
  __CPROVER_assert(lemma_epoch_ENS(), "lemma_epoch.ENS");
}
void pl_lemma_secrepr(void)
{
  Z u; __CPROVER_assume(lemma_secrepr_REQ(u));
  USE(lemma_dm_range_REQ(u), lemma_dm_range_ENS(u), "dm_range(u)");
  USE(lemma_dm_range_REQ(FD60(u)), lemma_dm_range_ENS(FD60(u)), "dm_range(u/60)");
  USE(lemma_dm_range_REQ(FD60(FD60(u))), lemma_dm_range_ENS(FD60(FD60(u))), "dm_range(u/3600)");
  __CPROVER_assert(lemma_secrepr_ENS(u), "lemma_secrepr.ENS");
}
void pl_lemma_osec_lex(void)
{
  fields a, b;
  __CPROVER_assume(lemma_osec_lex_REQ(a, b));
  USE(lemma_dayord_lex_REQ(a.y, a.m, a.d, b.y, b.m, b.d), lemma_dayord_lex_ENS(a.y, a.m, a.d, b.y, b.m, b.d), "dayord_lex");
  BOUND_DAYORD(a.y, a.m, a.d); BOUND_DAYORD(b.y, b.m, b.d);
  __CPROVER_assert(lemma_osec_lex_ENS(a, b), "lemma_osec_lex.ENS");
}
#pragma CPROVER check pop

void pl_lemma_prepost(void)
{
  Z oc, ut; int offp, offn;
  __CPROVER_assume(lemma_prepost_REQ(oc, ut, offp, offn));
  __CPROVER_assert(lemma_prepost_ENS(oc, ut, offp, offn), "lemma_prepost.ENS");
}

void pl_lemma_tl_sat(void)
{
  Z f, c4;
  __CPROVER_assume(lemma_tl_sat_REQ(f, c4));
  __CPROVER_assert(lemma_tl_sat_ENS(f, c4), "lemma_tl_sat.ENS");
}

/* R19: the padded table elements are exactly 64 bytes (pointer <-> index conversion is a shift) */
_Static_assert(sizeof(Transition) == 64 && sizeof(TransitionType) == 64, "R19 padding");

/* the extracted constants have the values the specification macros use */
void pl_lemma_consts(void)
{
  __CPROVER_assert((Z)kSecsPer400Years == P400 && kSecsPerDay == 86400, "kSecsPer400Years is the number of seconds in 400 Gregorian years");
}

/* ======================================================================================================================================
 * C03 (instant -> civil -> instant): property lemmas over the CONTRACTS of BreakTime and MakeTime (both calls are replaced by their
 * contracts: preconditions asserted, postconditions assumed; no function body is involved).  The table is symbolic; the facts assumed are
 * instances, at the rows named below, of the table invariants (WFI / TYWF / MARGIN, order by unix time and by civil time, spacing).
 * Each lemma is one scenario of "t lies in row i's interval"; together: before the first row, after the last row, inside (cs before / at
 * or after the next row's civil second - the latter only happens in the last seconds before an overlap).
 * Conclusion in every scenario: the lookup is not SKIPPED, and it is UNIQUE with pre == t or REPEATED with t == pre or t == post. */
#pragma CPROVER check push
#pragma CPROVER check disable "pointer"
#pragma CPROVER check disable "pointer-primitive"
#pragma CPROVER check disable "pointer-overflow"
#pragma CPROVER check disable "bounds"
#pragma CPROVER check disable "signed-overflow"
#pragma CPROVER check disable "conversion"
static TimeZoneInfo* c03_zone(void)
{
  TimeZoneInfo* z = malloc(sizeof(TimeZoneInfo));
  __CPROVER_assume(z != NULL);
  size_t n, nty;
  __CPROVER_assume(1 <= n && n <= ZMAXTR && 1 <= nty && nty <= 256);
  z->transitions_.size = n;
  z->transitions_.data = malloc(n * sizeof(Transition));
  z->transition_types_.size = nty;
  z->transition_types_.data = malloc(nty * sizeof(TransitionType));
  __CPROVER_assume(z != NULL && z->transitions_.data != NULL && z->transition_types_.data != NULL);   /* (the C library model lets malloc fail) */
  __CPROVER_assume(DEFTY(z) < NTY(z) && VSTR_WF(z->abbreviations_) && !z->extended_);
  gz_extended = 0;
  /* ends of the table (what both contracts require of every zone) */
  __CPROVER_assume(WFI(z, 0) && WFI(z, NTR(z) - 1) && TYWF(z, DEFTY(z)) && TYWF(z, TR(z, NTR(z) - 1).type_index));
  __CPROVER_assume(TR(z, 0).unix_time < 0 && TR(z, NTR(z) - 1).unix_time >= 0 && MARGIN(z, 0) && MARGIN(z, NTR(z) - 1));
  __CPROVER_assume(NTR(z) > 1 ? LEXLT(TR(z, 0).civil_sec, TR(z, NTR(z) - 1).civil_sec) : 1);
  return z;
}
#define C03_OK(cl, t) ((cl).kind != KIND_SKIPPED && ((cl).kind == KIND_UNIQUE ? (cl).pre == (t) : ((cl).pre == (t) || (cl).post == (t))))
#define LEX2(a, b) USE(lemma_osec_lex_REQ(a, b), lemma_osec_lex_ENS(a, b), "osec_lex"); USE(lemma_osec_lex_REQ(b, a), lemma_osec_lex_ENS(b, a), "osec_lex")
/* uniqueness of brackets (instances of the two sort orders), for whatever the hint happens to be */
#define C03_HINTS(z, t, cs) \
  __CPROVER_assume((0 < gz_hint && gz_hint < NTR(z) && TR(z, gz_hint - 1).unix_time <= (t) && (t) < TR(z, gz_hint).unix_time) ? gz_hint - 1 == gz_i : 1)

/* t inside row i's interval, and its civil second is earlier than the next row's: the civil bracket ends at row i+1 */
void pl_C03_inside_a(void)
{
  TimeZoneInfo* z = c03_zone();
  time_point_s t;
  __CPROVER_assume(BT_MIDDLE(z, t) && TBRACKET(z, gz_i, t) && WFI(z, gz_i) && WFI(z, gz_i + 1) && MARGIN(z, gz_i) && MARGIN(z, gz_i + 1));
  __CPROVER_assume(FITS64((Z)t - TR(z, gz_i).unix_time));
  C03_HINTS(z, t, 0);
  absolute_lookup al = BreakTime(z, t);
  fields cs = al.cs;
  LEX2(cs, TR(z, gz_i).civil_sec); LEX2(cs, TR(z, gz_i + 1).civil_sec); LEX2(cs, TR(z, gz_i + 1).prev_civil_sec); LEX2(cs, TR(z, gz_i).prev_civil_sec);
  LEX2(cs, TR(z, 0).civil_sec); LEX2(cs, TR(z, NTR(z) - 1).civil_sec);
  __CPROVER_assume(OSEC(cs) < OSEC(TR(z, gz_i + 1).civil_sec));                 /* scenario a */
  gz_j = gz_i + 1;
  /* instances of the civil order: row 0 <= row i, row i+1 <= last row */
  __CPROVER_assume(OSEC(TR(z, 0).civil_sec) <= OSEC(TR(z, gz_i).civil_sec) && OSEC(TR(z, gz_i + 1).civil_sec) <= OSEC(TR(z, NTR(z) - 1).civil_sec));
  __CPROVER_assume((0 < gz_hint && gz_hint < NTR(z) && !LEXLT(cs, TR(z, gz_hint - 1).civil_sec) && LEXLT(cs, TR(z, gz_hint).civil_sec)) ? gz_hint == gz_j : 1);
  civil_lookup cl = MakeTime(z, cs);
  __CPROVER_assert(C03_OK(cl, t), "C03: looking the civil second of t up again recovers t (inside, before the next row's civil second)");
}

/* t in the last seconds before an overlap at row i+1 (its civil second is already >= that row's), row i+2 exists and is far enough */
void pl_C03_inside_b(void)
{
  TimeZoneInfo* z = c03_zone();
  time_point_s t;
  __CPROVER_assume(BT_MIDDLE(z, t) && TBRACKET(z, gz_i, t) && WFI(z, gz_i) && WFI(z, gz_i + 1) && MARGIN(z, gz_i) && MARGIN(z, gz_i + 1));
  __CPROVER_assume(gz_i + 2 < NTR(z) && WFI(z, gz_i + 2) && MARGIN(z, gz_i + 2) && TR(z, gz_i + 1).unix_time < TR(z, gz_i + 2).unix_time);
  __CPROVER_assume(FITS64((Z)t - TR(z, gz_i).unix_time));
  C03_HINTS(z, t, 0);
  absolute_lookup al = BreakTime(z, t);
  fields cs = al.cs;
  LEX2(cs, TR(z, gz_i + 1).civil_sec); LEX2(cs, TR(z, gz_i + 1).prev_civil_sec); LEX2(cs, TR(z, gz_i + 2).civil_sec); LEX2(cs, TR(z, gz_i + 2).prev_civil_sec);
  LEX2(cs, TR(z, 0).civil_sec); LEX2(cs, TR(z, NTR(z) - 1).civil_sec);
  __CPROVER_assume(OSEC(cs) >= OSEC(TR(z, gz_i + 1).civil_sec));                /* scenario b */
  /* spacing (well-formed zones: offset changes farther apart than the sum of their sizes): rows i+1 and i+2 are more than two days apart */
  __CPROVER_assume((Z)TR(z, gz_i + 2).unix_time - (Z)TR(z, gz_i + 1).unix_time > 2 * 86400);
  gz_j = gz_i + 2;
  __CPROVER_assume(OSEC(TR(z, 0).civil_sec) <= OSEC(TR(z, gz_i + 1).civil_sec) && OSEC(TR(z, gz_i + 2).civil_sec) <= OSEC(TR(z, NTR(z) - 1).civil_sec));
  __CPROVER_assume((0 < gz_hint && gz_hint < NTR(z) && !LEXLT(cs, TR(z, gz_hint - 1).civil_sec) && LEXLT(cs, TR(z, gz_hint).civil_sec)) ? gz_hint == gz_j : 1);
  civil_lookup cl = MakeTime(z, cs);
  __CPROVER_assert(C03_OK(cl, t), "C03: recovered (inside, in the last seconds before an overlap)");
}

/* t before the first row */
void pl_C03_before(void)
{
  TimeZoneInfo* z = c03_zone();
  time_point_s t;
  __CPROVER_assume(t < TR(z, 0).unix_time);
  __CPROVER_assume((Z)t >= (Z)INT64_MIN + 2 * 86400);            /* C03's range: t in [min()+1day, max()-1day] */
  __CPROVER_assume(NTR(z) >= 2 && WFI(z, 1) && MARGIN(z, 1) && TR(z, 0).unix_time < TR(z, 1).unix_time && (Z)TR(z, 1).unix_time - (Z)TR(z, 0).unix_time > 2 * 86400);
  C03_HINTS(z, t, 0);
  absolute_lookup al = BreakTime(z, t);
  fields cs = al.cs;
  LEX2(cs, TR(z, 0).civil_sec); LEX2(cs, TR(z, 0).prev_civil_sec); LEX2(cs, TR(z, 1).civil_sec); LEX2(cs, TR(z, 1).prev_civil_sec); LEX2(cs, TR(z, NTR(z) - 1).civil_sec);
  LEX2(cs, TY(z, DEFTY(z)).civil_min);
  gz_j = 1;
  __CPROVER_assume(OSEC(TR(z, 1).civil_sec) <= OSEC(TR(z, NTR(z) - 1).civil_sec));
  __CPROVER_assume((0 < gz_hint && gz_hint < NTR(z) && !LEXLT(cs, TR(z, gz_hint - 1).civil_sec) && LEXLT(cs, TR(z, gz_hint).civil_sec)) ? gz_hint == gz_j : 1);
  civil_lookup cl = MakeTime(z, cs);
  __CPROVER_assert(C03_OK(cl, t), "C03: recovered (before the first row)");
}

/* t at or after the last row */
void pl_C03_after(void)
{
  TimeZoneInfo* z = c03_zone();
  time_point_s t;
  __CPROVER_assume(t >= TR(z, NTR(z) - 1).unix_time);
  __CPROVER_assume((Z)t <= (Z)INT64_MAX - 2 * 86400);
  __CPROVER_assume(FITS64((Z)t - TR(z, NTR(z) - 1).unix_time));
  C03_HINTS(z, t, 0);
  absolute_lookup al = BreakTime(z, t);
  fields cs = al.cs;
  LEX2(cs, TR(z, 0).civil_sec); LEX2(cs, TR(z, NTR(z) - 1).civil_sec); LEX2(cs, TR(z, NTR(z) - 1).prev_civil_sec);
  LEX2(cs, TY(z, TR(z, NTR(z) - 1).type_index).civil_max);
  __CPROVER_assume((0 < gz_hint && gz_hint < NTR(z) && !LEXLT(cs, TR(z, gz_hint - 1).civil_sec) && LEXLT(cs, TR(z, gz_hint).civil_sec)) ? gz_hint == gz_j : 1);
  civil_lookup cl = MakeTime(z, cs);
  __CPROVER_assert(C03_OK(cl, t), "C03: recovered (at or after the last row)");
}
/* reachability probes (goals marked probe=True in units/props.py, run with every C03 check): their assertions must FAIL,
 * otherwise the scenario assumptions would be contradictory */
void pl_C03_probe_a(void)
{
  TimeZoneInfo* z = c03_zone();
  time_point_s t;
  __CPROVER_assume(BT_MIDDLE(z, t) && TBRACKET(z, gz_i, t) && WFI(z, gz_i) && WFI(z, gz_i + 1) && MARGIN(z, gz_i) && MARGIN(z, gz_i + 1));
  __CPROVER_assume(FITS64((Z)t - TR(z, gz_i).unix_time));
  C03_HINTS(z, t, 0);
  absolute_lookup al = BreakTime(z, t);
  fields cs = al.cs;
  LEX2(cs, TR(z, gz_i).civil_sec); LEX2(cs, TR(z, gz_i + 1).civil_sec); LEX2(cs, TR(z, gz_i + 1).prev_civil_sec); LEX2(cs, TR(z, gz_i).prev_civil_sec);
  LEX2(cs, TR(z, 0).civil_sec); LEX2(cs, TR(z, NTR(z) - 1).civil_sec);
  __CPROVER_assume(OSEC(cs) < OSEC(TR(z, gz_i + 1).civil_sec));                 /* scenario a */
  gz_j = gz_i + 1;
  /* instances of the civil order: row 0 <= row i, row i+1 <= last row */
  __CPROVER_assume(OSEC(TR(z, 0).civil_sec) <= OSEC(TR(z, gz_i).civil_sec) && OSEC(TR(z, gz_i + 1).civil_sec) <= OSEC(TR(z, NTR(z) - 1).civil_sec));
  __CPROVER_assume((0 < gz_hint && gz_hint < NTR(z) && !LEXLT(cs, TR(z, gz_hint - 1).civil_sec) && LEXLT(cs, TR(z, gz_hint).civil_sec)) ? gz_hint == gz_j : 1);
  civil_lookup cl = MakeTime(z, cs);
  __CPROVER_assert(cl.kind != KIND_UNIQUE, "PROBE: must FAIL - a unique answer is reachable in scenario a");
}
void pl_C03_probe_b(void)
{
  TimeZoneInfo* z = c03_zone();
  time_point_s t;
  __CPROVER_assume(BT_MIDDLE(z, t) && TBRACKET(z, gz_i, t) && WFI(z, gz_i) && WFI(z, gz_i + 1) && MARGIN(z, gz_i) && MARGIN(z, gz_i + 1));
  __CPROVER_assume(gz_i + 2 < NTR(z) && WFI(z, gz_i + 2) && MARGIN(z, gz_i + 2) && TR(z, gz_i + 1).unix_time < TR(z, gz_i + 2).unix_time);
  __CPROVER_assume(FITS64((Z)t - TR(z, gz_i).unix_time));
  C03_HINTS(z, t, 0);
  absolute_lookup al = BreakTime(z, t);
  fields cs = al.cs;
  LEX2(cs, TR(z, gz_i + 1).civil_sec); LEX2(cs, TR(z, gz_i + 1).prev_civil_sec); LEX2(cs, TR(z, gz_i + 2).civil_sec); LEX2(cs, TR(z, gz_i + 2).prev_civil_sec);
  LEX2(cs, TR(z, 0).civil_sec); LEX2(cs, TR(z, NTR(z) - 1).civil_sec);
  __CPROVER_assume(OSEC(cs) >= OSEC(TR(z, gz_i + 1).civil_sec));                /* scenario b */
  /* spacing (well-formed zones: offset changes farther apart than the sum of their sizes): rows i+1 and i+2 are more than two days apart */
  __CPROVER_assume((Z)TR(z, gz_i + 2).unix_time - (Z)TR(z, gz_i + 1).unix_time > 2 * 86400);
  gz_j = gz_i + 2;
  __CPROVER_assume(OSEC(TR(z, 0).civil_sec) <= OSEC(TR(z, gz_i + 1).civil_sec) && OSEC(TR(z, gz_i + 2).civil_sec) <= OSEC(TR(z, NTR(z) - 1).civil_sec));
  __CPROVER_assume((0 < gz_hint && gz_hint < NTR(z) && !LEXLT(cs, TR(z, gz_hint - 1).civil_sec) && LEXLT(cs, TR(z, gz_hint).civil_sec)) ? gz_hint == gz_j : 1);
  civil_lookup cl = MakeTime(z, cs);
  __CPROVER_assert(cl.kind != KIND_REPEATED, "PROBE: must FAIL - the repeated answer is reachable in scenario b");
}
#pragma CPROVER check pop
