/* /verif/harness/zone.c - ghost state and property lemmas for the zone kernel */
size_t gz_i;
size_t gz_j;
size_t gz_hint;
