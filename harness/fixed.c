/* /verif/harness/fixed.c - property lemma for C15: names map back to the same offset; distinct offsets have distinct names */
void pl_C15_roundtrip(void)
{
  seconds_t off, back;
  __CPROVER_assume(-86400 <= off && off <= 86400);
  vstr name = FixedOffsetToName(off);
  bool ok = FixedOffsetFromName(&name, &back);
  __CPROVER_assert(ok, "C15: the name of every offset within 24h is recognised as a fixed-offset name");
  __CPROVER_assert(back == off, "C15: the name maps back to the same offset");
}
void pl_C15_far_is_utc(void)
{
  seconds_t off, back;
  __CPROVER_assume(off < -86400 || off > 86400 || off == 0);
  vstr name = FixedOffsetToName(off);
  __CPROVER_assert(STR_IS_UTC(name), "C15: zero and offsets beyond 24h yield UTC");
  bool ok = FixedOffsetFromName(&name, &back);
  __CPROVER_assert(ok && back == 0, "C15: UTC maps to offset zero");
}
